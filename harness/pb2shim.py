"""Synthesises paranoid_pb2 / data_pb2 from /repo's .proto files at run time.

The pinned environment has no protoc, so the generated modules do not exist.
Two flavours are produced from the same parsed field list:
  * real protobuf classes (pure-python protobuf runtime) - used for replay
    through the public API and for concrete ground runs;
  * duck-typed fakes that accept proxy objects in any field - used for
    symbolic runs.
install() registers one module object per .proto in sys.modules; use_fakes()
rebinds its message classes between the two flavours.
"""
import os
import re
import sys
import types

REPO = os.environ.get('VERIF_REPO', '/repo')

_SCALARS = {
    'bytes': ('TYPE_BYTES', b''),
    'string': ('TYPE_STRING', ''),
    'bool': ('TYPE_BOOL', False),
    'uint64': ('TYPE_UINT64', 0),
    'int64': ('TYPE_INT64', 0),
    'uint32': ('TYPE_UINT32', 0),
    'int32': ('TYPE_INT32', 0),
    'double': ('TYPE_DOUBLE', 0.0),
    'float': ('TYPE_FLOAT', 0.0),
}


def parse_proto(path):
  """Parses the proto3 subset used by the repository."""
  src = open(path).read()
  src = re.sub(r'//[^\n]*', '', src)
  src = re.sub(r'/\*.*?\*/', '', src, flags=re.S)
  toks = re.findall(r'[A-Za-z_][A-Za-z0-9_.]*|\d+|"[^"]*"|[{}=;<>,]', src)
  pos = 0
  out = dict(package='', enums={}, messages={}, order=[])

  def peek():
    return toks[pos] if pos < len(toks) else None

  def take(expect=None):
    nonlocal pos
    t = toks[pos]
    if expect is not None and t != expect:
      raise SyntaxError('%s: expected %r, got %r at token %d' %
                        (path, expect, t, pos))
    pos += 1
    return t

  while pos < len(toks):
    t = take()
    if t == 'syntax':
      take('=')
      take()
      take(';')
    elif t == 'package':
      out['package'] = take()
      take(';')
    elif t in ('import', 'option'):
      while take() != ';':
        pass
    elif t == 'enum':
      name = take()
      take('{')
      vals = []
      while peek() != '}':
        n = take()
        take('=')
        v = int(take())
        take(';')
        vals.append((n, v))
      take('}')
      out['enums'][name] = vals
      out['order'].append(('enum', name))
    elif t == 'message':
      name = take()
      take('{')
      fields = []
      while peek() != '}':
        label = 'optional'
        ft = take()
        if ft == 'repeated':
          label = 'repeated'
          ft = take()
        if ft == 'optional':
          ft = take()
        if ft == 'map':
          take('<')
          kt = take()
          take(',')
          vt = take()
          take('>')
          ft = ('map', kt, vt)
          label = 'map'
        fname = take()
        take('=')
        num = int(take())
        take(';')
        fields.append((label, ft, fname, num))
      take('}')
      out['messages'][name] = fields
      out['order'].append(('message', name))
    else:
      raise SyntaxError('%s: unexpected token %r' % (path, t))
  return out


# -- real protobuf classes ---------------------------------------------------


def build_real(parsed, file_name):
  from google.protobuf import descriptor_pb2  # pylint: disable=g-import-not-at-top
  from google.protobuf import descriptor_pool
  from google.protobuf import message_factory
  from google.protobuf.internal import enum_type_wrapper
  F = descriptor_pb2.FieldDescriptorProto
  fdp = descriptor_pb2.FileDescriptorProto()
  fdp.name = file_name
  fdp.package = parsed['package']
  fdp.syntax = 'proto3'
  pkg = parsed['package']
  for kind, name in parsed['order']:
    if kind == 'enum':
      e = fdp.enum_type.add()
      e.name = name
      for n, v in parsed['enums'][name]:
        ev = e.value.add()
        ev.name = n
        ev.number = v
    else:
      m = fdp.message_type.add()
      m.name = name
      for label, ft, fname, num in parsed['messages'][name]:
        f = m.field.add()
        f.name = fname
        f.number = num
        f.label = F.LABEL_REPEATED if label in ('repeated',
                                                'map') else F.LABEL_OPTIONAL
        if label == 'map':
          _, kt, vt = ft
          entry = m.nested_type.add()
          entry.name = ''.join(p.capitalize() for p in fname.split('_')) + 'Entry'
          entry.options.map_entry = True
          for i, (nm, tt) in enumerate((('key', kt), ('value', vt))):
            ef = entry.field.add()
            ef.name = nm
            ef.number = i + 1
            ef.label = F.LABEL_OPTIONAL
            ef.type = getattr(F, _SCALARS[tt][0])
          f.type = F.TYPE_MESSAGE
          f.type_name = '.%s.%s.%s' % (pkg, name, entry.name)
        elif ft in _SCALARS:
          f.type = getattr(F, _SCALARS[ft][0])
        elif ft in parsed['enums']:
          f.type = F.TYPE_ENUM
          f.type_name = '.%s.%s' % (pkg, ft)
        else:
          f.type = F.TYPE_MESSAGE
          f.type_name = '.%s.%s' % (pkg, ft)
  pool = descriptor_pool.DescriptorPool()
  fd = pool.Add(fdp) or pool.FindFileByName(file_name)
  ns = {}
  for name in parsed['messages']:
    desc = pool.FindMessageTypeByName('%s.%s' % (pkg, name))
    ns[name] = message_factory.MessageFactory(pool).GetPrototype(desc)
  for name, vals in parsed['enums'].items():
    ed = pool.FindEnumTypeByName('%s.%s' % (pkg, name))
    ns[name] = enum_type_wrapper.EnumTypeWrapper(ed)
    for n, v in vals:
      ns[n] = v
  ns['DESCRIPTOR'] = fd
  return ns


# -- fakes -------------------------------------------------------------------


class FakeRepeated(list):

  def __init__(self, factory=None):
    super().__init__()
    self._factory = factory

  def add(self, **kw):
    m = self._factory(**kw)
    self.append(m)
    return m


class FakeEnum:

  def __init__(self, name, vals):
    self._name = name
    self._vals = list(vals)
    for n, v in vals:
      setattr(self, n, v)

  def Name(self, v):
    for n, x in self._vals:
      if x == v:
        return n
    raise ValueError('Enum %s has no name defined for value %r' %
                     (self._name, v))

  def Value(self, n):
    for x, v in self._vals:
      if x == n:
        return v
    raise ValueError(n)

  def keys(self):
    return [n for n, _ in self._vals]

  def values(self):
    return [v for _, v in self._vals]

  def items(self):
    return list(self._vals)


def build_fake(parsed):
  ns = {}
  for name, vals in parsed['enums'].items():
    ns[name] = FakeEnum(name, vals)
    for n, v in vals:
      ns[n] = v

  def make_class(name, fields):

    def __init__(self, **kw):
      for label, ft, fname, _ in fields:
        if label == 'repeated':
          factory = ns.get(ft) if isinstance(ft, str) and ft in parsed[
              'messages'] else None
          object.__setattr__(self, fname, FakeRepeated(factory))
        elif label == 'map':
          object.__setattr__(self, fname, {})
        elif ft in _SCALARS:
          object.__setattr__(self, fname, _SCALARS[ft][1])
        elif ft in parsed['enums']:
          object.__setattr__(self, fname, 0)
        else:
          object.__setattr__(self, fname, ns[ft]())
      for k, v in kw.items():
        if k not in self._fields:
          raise ValueError('Protocol message %s has no "%s" field.' %
                           (name, k))
        if isinstance(getattr(self, k), FakeRepeated):
          getattr(self, k).extend(v)
        else:
          object.__setattr__(self, k, v)

    def __setattr__(self, k, v):
      if k not in self._fields:
        raise AttributeError('Assignment not allowed (no field "%s" in '
                             'protocol message object %s).' % (k, name))
      object.__setattr__(self, k, v)

    def CopyFrom(self, other):
      for f in self._fields:
        v = getattr(other, f)
        if isinstance(v, FakeRepeated):
          nv = FakeRepeated(v._factory)
          for x in v:
            if hasattr(x, 'CopyFrom'):
              y = type(x)()
              y.CopyFrom(x)
              nv.append(y)
            else:
              nv.append(x)
          object.__setattr__(self, f, nv)
        elif hasattr(v, 'CopyFrom') and hasattr(v, '_fields'):
          y = type(v)()
          y.CopyFrom(v)
          object.__setattr__(self, f, y)
        elif isinstance(v, dict):
          object.__setattr__(self, f, dict(v))
        else:
          object.__setattr__(self, f, v)

    def MergeFrom(self, other):
      # proto3 merge: singular scalar fields are overwritten when set (i.e.
      # non-default) in `other`, repeated fields are concatenated, message
      # fields are merged recursively
      for f in self._fields:
        v = getattr(other, f)
        cur = getattr(self, f)
        if isinstance(v, FakeRepeated):
          for x in v:
            if hasattr(x, 'CopyFrom') and hasattr(x, '_fields'):
              y = type(x)()
              y.CopyFrom(x)
              cur.append(y)
            else:
              cur.append(x)
        elif hasattr(v, '_fields'):
          cur.MergeFrom(v)
        elif isinstance(v, dict):
          cur.update(v)
        elif isinstance(v, (bytes, str, list)):
          if len(v):
            object.__setattr__(self, f, v)
        else:
          if v:  # forks on symbolic values: non-default
            object.__setattr__(self, f, v)

    def __repr__(self):
      return '%s(%s)' % (name, ', '.join(
          '%s=%r' % (f, getattr(self, f)) for f in self._fields))

    cls = type(name, (object,), dict(
        __init__=__init__, __setattr__=__setattr__, CopyFrom=CopyFrom,
        MergeFrom=MergeFrom,
        __repr__=__repr__, _fields=[f[2] for f in fields], _fake=True))
    return cls

  for name, fields in parsed['messages'].items():
    ns[name] = make_class(name, fields)
  return ns


# -- installation ------------------------------------------------------------

_STATE = {}

_PROTOS = [
    ('paranoid_crypto.paranoid_pb2', 'paranoid_crypto/paranoid.proto'),
    ('paranoid_crypto.lib.data.data_pb2', 'paranoid_crypto/lib/data/data.proto'),
]


def install(fakes=False):
  """Registers the synthesised modules (idempotent)."""
  import importlib  # pylint: disable=g-import-not-at-top
  for modname, rel in _PROTOS:
    if modname in _STATE:
      continue
    parsed = parse_proto(os.path.join(REPO, rel))
    real = build_real(parsed, rel)
    fake = build_fake(parsed)
    mod = types.ModuleType(modname)
    mod.__dict__.update(real)
    sys.modules[modname] = mod
    parent, _, leaf = modname.rpartition('.')
    setattr(importlib.import_module(parent), leaf, mod)
    _STATE[modname] = dict(parsed=parsed, real=real, fake=fake, mod=mod)
  use_fakes(fakes)
  return sys.modules['paranoid_crypto.paranoid_pb2']


def use_fakes(on):
  for st in _STATE.values():
    src = st['fake'] if on else st['real']
    for name in st['parsed']['messages']:
      setattr(st['mod'], name, src[name])


def install_pybind_shim():
  """cc_util.pybind.berlekamp_massey is not built: route to a ctypes build or
  the pure Python implementation (harness.cxx provides the ctypes one)."""
  import importlib  # pylint: disable=g-import-not-at-top
  name = 'paranoid_crypto.lib.randomness_tests.cc_util.pybind.berlekamp_massey'
  if name in sys.modules:
    return sys.modules[name]
  mod = types.ModuleType(name)

  def LfsrLength(ba, n):
    from paranoid_crypto.lib.randomness_tests import berlekamp_massey as bm  # pylint: disable=g-import-not-at-top
    if n < 0 or n > 8 * len(ba):
      raise ValueError('invalid length')
    return bm.LinearComplexityNative(int.from_bytes(ba, 'little'), n)

  mod.LfsrLength = LfsrLength
  for pkg in ('paranoid_crypto.lib.randomness_tests.cc_util',
              'paranoid_crypto.lib.randomness_tests.cc_util.pybind'):
    if pkg not in sys.modules:
      try:
        importlib.import_module(pkg)
      except ImportError:
        p = types.ModuleType(pkg)
        p.__path__ = []
        sys.modules[pkg] = p
  sys.modules[name] = mod
  setattr(sys.modules['paranoid_crypto.lib.randomness_tests.cc_util.pybind'],
          'berlekamp_massey', mod)
  return mod
