"""Byte buffers over proxies: stand-ins for bytes / bytearray / int.from_bytes
inside analysed modules (DESIGN C15/C20)."""
import z3

from harness import pysym
from harness.pysym import SInt, SBits, eng


class SymBytes(list):
  """A mutable byte string whose elements are ints or SInt in [0, 256)."""

  def __getitem__(self, i):
    r = list.__getitem__(self, i)
    if isinstance(i, slice):
      return SymBytes(r)
    return r

  def __add__(self, o):
    return SymBytes(list(self) + list(o))

  def __iadd__(self, o):
    self.extend(o)
    return self

  def __radd__(self, o):
    return SymBytes(list(o) + list(self))

  def join(self, parts):
    out = SymBytes()
    first = True
    for p in parts:
      if not first:
        out.extend(self)
      out.extend(p)
      first = False
    return out

  def __setitem__(self, i, v):
    if isinstance(i, slice):
      v = list(v)
      # bytearray allows resizing slice assignment; keep list semantics
      list.__setitem__(self, i, v)
      return
    if isinstance(v, int) and not 0 <= v < 256:
      raise ValueError('byte must be in range(0, 256)')
    list.__setitem__(self, i, v)

  def concrete(self):
    return all(isinstance(b, int) for b in self)

  def __bytes__(self):
    return bytes(int(b) for b in self)


def sym_bytearray(x=None, *a):
  if x is None:
    return SymBytes()
  if isinstance(x, int):
    return SymBytes([0] * x)
  return SymBytes(list(x))


def sym_bytes(x=None, *a):
  return sym_bytearray(x, *a)


def int_to_bytes(x, length, byteorder='big', signed=False):
  """x.to_bytes(length, byteorder) for a proxy x."""
  e = eng()
  length = int(length)
  lim = 256**length
  if isinstance(x, SInt):
    if signed:
      if e.decide(z3.Or(x.t < -(lim // 2), x.t >= lim // 2)):
        raise OverflowError('int too big to convert')
      x = x % lim
    elif e.decide(z3.Or(x.t < 0, x.t >= lim)):
      raise OverflowError('int too big to convert')
    out = []
    for i in range(length):
      b = x // (256**i) % 256
      if isinstance(b, SInt) and isinstance(x, SInt):
        # provenance: byte i of x (0 <= x < 256^length holds on this path)
        e.memo[('byteof', b.t.get_id())] = (x.t, i, length, b.t)
      out.append(b)
  elif isinstance(x, SBits):
    if signed:
      raise pysym.PathAbort('inconclusive: signed to_bytes on SBits')
    if e.decide(z3.Or(x.t < 0, x.t >= lim)) if lim < (1 << (x.w - 1)) else \
        e.decide(x.t < 0):
      raise OverflowError('int too big to convert')
    out = [(x >> (8 * i)) & 0xff for i in range(length)]
  else:
    return SymBytes(int(x).to_bytes(length, byteorder, signed=signed))
  if byteorder == 'big':
    out.reverse()
  return SymBytes(out)


def int_from_bytes(ba, byteorder='big', *, signed=False):
  if isinstance(ba, (bytes, bytearray)):
    return int.from_bytes(ba, byteorder, signed=signed)
  seq = list(ba)
  if byteorder == 'big':
    seq = seq[::-1]
  e = pysym.CUR
  r = 0
  i = 0
  n = len(seq)
  while i < n:
    b = seq[i]
    prov = None
    if e is not None and isinstance(b, SInt):
      prov = e.memo.get(('byteof', b.t.get_id()))
    if prov is None:
      r = r + b * (256**i)
      i += 1
      continue
    # maximal run of consecutive bytes of the same integer
    x, s0, length, _ = prov
    j = i + 1
    while j < n and isinstance(seq[j], SInt):
      pj = e.memo.get(('byteof', seq[j].t.get_id()))
      if pj is None or not pj[0].eq(x) or pj[1] != s0 + (j - i):
        break
      j += 1
    cnt = j - i
    xs = SInt(x)
    if s0 == 0 and cnt == length:
      chunk = xs  # all bytes of x: sum is x itself (0 <= x < 256^length)
    else:
      hv = e.notes.get('havoc_mod')
      e.notes['havoc_mod'] = None  # exact: this is byte re-assembly
      try:
        chunk = (xs // (256**s0)) % (256**cnt)
      finally:
        e.notes['havoc_mod'] = hv
    r = r + chunk * (256**i)
    i = j
  return r


class _IntMeta(type):

  def __instancecheck__(cls, inst):
    return isinstance(inst, (int, SInt, SBits))

  def __call__(cls, x=0, base=None):
    from harness import stubs  # pylint: disable=g-import-not-at-top
    return stubs.sym_int(x, base)


class SymInt(metaclass=_IntMeta):
  """`int` look-alike for analysed modules: int(x) identity on proxies,
  int.from_bytes / int.to_bytes proxy-aware."""
  from_bytes = staticmethod(int_from_bytes)

  @staticmethod
  def to_bytes(x, length, byteorder='big', *, signed=False):
    if pysym.is_sym(x):
      return int_to_bytes(x, length, byteorder, signed)
    return int.to_bytes(x, length, byteorder, signed=signed)


def fresh_bytes(k, name='rnd'):
  """k arbitrary bytes (entropy / hash output); logged in eng().log."""
  e = eng()
  out = SymBytes()
  for _ in range(k):
    t = e.fresh(name)
    e.assume(z3.And(t >= 0, t < 256))
    out.append(SInt(t))
  e.log.append(('entropy', name, k))
  return out
