"""Check-level harness shared by C01 / C16 / C17 / C18 (RSA single checks).

One symbolic run executes the real `Check` of one check class three times with
the same check object: on [k1, k2], on [k2] alone and on [k2, k1] (fresh fake
messages, same symbolic moduli).  The numeric kernels are contract stubs
memoised on their argument terms, so all three runs see the same kernel
outcomes and only the *plumbing* of the check can make a difference.
"""
import itertools
import random

import z3

from harness import common
from harness import pb2shim
from harness import pysym
from harness import stubs
from harness.common import T, ivar, inputs_of
from harness.pysym import SInt


def mods():
  pb = common.lib(fakes=True)
  pb2shim.use_fakes(True)
  from paranoid_crypto.lib import rsa_single_checks as rsc  # pylint: disable=g-import-not-at-top
  from paranoid_crypto.lib import rsa_util, special_case_factoring, util, roca  # pylint: disable=g-import-not-at-top
  return pb, rsc, rsa_util, special_case_factoring, util, roca


# ---------------------------------------------------------------------------
# kernel contract stubs


def _outcome(e, name, args, nclasses):
  """Memoised arbitrary choice among nclasses outcomes for kernel(args)."""
  terms = [T(a) if pysym.is_sym(a) or isinstance(a, int) else a for a in args]
  # literals are looked up by value, symbolic terms by AST id (the term is
  # kept alive in the memo entry, see pysym-engine lesson on freed AST ids)
  key = ('kernel', name) + tuple(
      ('v', a) if isinstance(a, int) and not isinstance(a, bool) else
      (('t', t.get_id()) if isinstance(t, z3.ExprRef) else ('o', id(a)))
      for a, t in zip(args, terms))
  hit = e.memo.get(key)
  if hit is None:
    sel = [e.fresh('%s_out%d' % (name, i), 'bool') for i in range(nclasses - 1)]
    hit = dict(sel=sel, args=terms, cls=None, pair=None)
    e.memo[key] = hit
    e.log.append(('kernel', name, args, hit))
  if hit['cls'] is None:
    cls = nclasses - 1
    for i, s in enumerate(hit['sel']):
      if e.decide(s):
        cls = i
        break
    hit['cls'] = cls
  return hit


def _pair(e, hit, n):
  if hit['pair'] is None:
    p = e.fresh('kp')
    q = e.fresh('kq')
    e.assume(z3.And(p > 1, q > 1, p * q == T(n)))
    hit['pair'] = (SInt(p), SInt(q))
  return hit['pair']


def kernel_stubs():
  """Contract stubs for the numeric kernels (class 0 = nothing found)."""
  S = stubs.USED

  def fermat(n, max_steps):
    S.add('rsa_util.FermatFactor: None | (p, q) with p*q == n, p, q > 1 '
          '(C01 kernel claim)')
    e = pysym.eng()
    h = _outcome(e, 'FermatFactor', (n, max_steps), 2)
    if h['cls'] == 0:
      return None
    return tuple(_pair(e, h, n))

  def highlow(n, middle_bits=3):
    S.add('rsa_util.FactorHighAndLowBitsEqual: None | [p, q], p*q == n')
    e = pysym.eng()
    h = _outcome(e, 'FactorHighAndLowBitsEqual', (n, middle_bits), 2)
    return None if h['cls'] == 0 else list(_pair(e, h, n))

  def contfrac(n, bound):
    S.add('rsa_util.CheckContinuedFraction: (True, []) | (False, []) | '
          '(False, [p, q]), p*q == n')
    e = pysym.eng()
    h = _outcome(e, 'CheckContinuedFraction', (n, bound), 3)
    if h['cls'] == 0:
      return True, []
    if h['cls'] == 1:
      return False, []
    return False, list(_pair(e, h, n))

  def fraction(n, d0=1):
    S.add('rsa_util.CheckFraction: [] | [p, q], p*q == n')
    e = pysym.eng()
    h = _outcome(e, 'CheckFraction', (n, d0), 2)
    return [] if h['cls'] == 0 else list(_pair(e, h, n))

  def pollard(n, m=None, gcd_bound=2**60):
    S.add('rsa_util.Pollardpm1: (False, []) | (True, []) | (True, [p, q])')
    e = pysym.eng()
    h = _outcome(e, 'Pollardpm1', (n,), 3)
    if h['cls'] == 0:
      return False, []
    if h['cls'] == 1:
      return True, []
    return True, list(_pair(e, h, n))

  def lowhw(n, cutoff=2500, maxsteps=10**6):
    S.add('rsa_util.CheckLowHammingWeight: (False, []) | (True, []) | '
          '(True, [p, q])')
    e = pysym.eng()
    h = _outcome(e, 'CheckLowHammingWeight', (n,), 3)
    if h['cls'] == 0:
      return False, []
    if h['cls'] == 1:
      return True, []
    return True, list(_pair(e, h, n))

  def guess(n, p_0):
    S.add('special_case_factoring.FactorWithGuess: None | [p, q], p*q == n')
    e = pysym.eng()
    h = _outcome(e, 'FactorWithGuess', (n, p_0), 2)
    return None if h['cls'] == 0 else list(_pair(e, h, n))

  def upperdiff(n):
    S.add('rsa_util.CheckSmallUpperDifferences: None | [p, q], p*q == n')
    e = pysym.eng()
    h = _outcome(e, 'CheckSmallUpperDifferences', (n,), 2)
    return None if h['cls'] == 0 else list(_pair(e, h, n))

  return dict(FermatFactor=fermat, FactorHighAndLowBitsEqual=highlow,
              CheckContinuedFraction=contfrac, CheckFraction=fraction,
              Pollardpm1=pollard, CheckLowHammingWeight=lowhw,
              CheckSmallUpperDifferences=upperdiff), dict(FactorWithGuess=guess)


class _Detector:
  """roca detectors: IsWeak(n) = arbitrary predicate of n (memoised)."""

  def __init__(self, name):
    self.name = name

  def IsWeak(self, n):
    stubs.USED.add('roca.%s.IsWeak: arbitrary predicate of the modulus '
                   '(its closed form is C06)' % self.name)
    e = pysym.eng()
    h = _outcome(e, self.name, (n,), 2)
    return h['cls'] == 1


class FakeStorage:
  """user-supplied Storage: two arbitrary candidates per size."""

  def GetUnseededRands(self, size):
    stubs.USED.add('Storage.GetUnseededRands: one arbitrary candidate per size')
    e = pysym.eng()
    key = ('storage', size)
    if key not in e.memo:
      e.memo[key] = [SInt(e.fresh('unseeded')) for _ in range(1)]
      for v in e.memo[key]:
        e.assume(v.t >= 1)
    return list(e.memo[key])

  def GetOpensslDenylist(self):
    return set()

  def GetKeypairData(self):
    stubs.USED.add('Storage.GetKeypairData: a table with one arbitrary 64-bit '
                   'key (seed metadata (7,))')
    e = pysym.eng()
    key = ('storage', 'keypair')
    if key not in e.memo:
      t = e.fresh('keypair_msb')
      e.assume(z3.And(t >= 2**63, t < 2**64))
      e.memo[key] = SInt(t)

    class D:
      table = {e.memo[key]: (7,)}

    return D()


class FakeKeypairGenerator:
  """keypair_generator stand-in: generate_key(bits) is an arbitrary pair of
  integers > 1, the same for the same seed and size (the generator is a
  deterministic function of both; its prime search is C06)."""

  class Generator:

    def __init__(self, seed):
      self.seed = bytes(seed)

    def generate_key(self, bits):
      stubs.USED.add('keypair_generator.Generator(seed).generate_key(bits): '
                     'arbitrary (p, q) > 1, a function of (seed, bits)')
      e = pysym.eng()
      if isinstance(bits, pysym.SBitLen):
        bits = bits.value()
      key = ('keypair_gen', self.seed, T(bits).get_id() if pysym.is_sym(bits)
             else bits)
      if key not in e.memo:
        pp, qq = e.fresh('kpg_p'), e.fresh('kpg_q')
        e.assume(z3.And(pp > 1, qq > 1))
        e.memo[key] = (SInt(pp), SInt(qq), bits)
      return e.memo[key][0], e.memo[key][1]


class Attach:

  def __init__(self):
    self.calls = []

  def __call__(self, test_info, name, factors):
    self.calls.append((test_info, name, list(factors)))


# checks that can be executed symbolically, with constructor variants
def variants(rsc):
  return {
      'CheckSizes': [()],
      'CheckExponents': [()],
      'CheckROCA': [()],
      'CheckROCAVariant': [()],
      'CheckFermat': [(), (3,)],
      'CheckHighAndLowBitsEqual': [()],
      'CheckContinuedFractions': [(), (2**8,)],
      'CheckBitPatterns': [(), ([9],), ([5, 9],)],
      'CheckPermutedBitPatterns': [()],
      'CheckPollardpm1': [(10,)],
      'CheckLowHammingWeight': [()],
      'CheckUnseededRand': [('storage',)],
      'CheckSmallUpperDifferences': [()],
      'CheckKeypairDenylist': [('storage',)],
  }


def make_check(rsc, name, args):
  cls = getattr(rsc, name)
  if args == ('storage',):
    return cls(FakeStorage())
  return cls(*args)


def run_three(e, pb, rsc, chk, ranges, fresh=None):
  """Runs chk.Check on [k1,k2], [k2], [k2,k1]; returns the three batches and
  the attach recorder."""
  ns = [ivar(e, 'n%d' % i, lo=lo, hi=hi) for i, (lo, hi) in enumerate(ranges)]
  es = [ivar(e, 'e%d' % i, lo=0) for i in range(len(ranges))]

  def key(i):
    k = pb.RSAKey()
    k.rsa_info.n = ns[i]
    k.rsa_info.e = es[i]
    return k

  A = [key(0), key(1)]
  B = [key(1)]
  C = [key(1), key(0)]
  att = Attach()
  e.notes.update(ns=ns, es=es, A=A, B=B, C=C, att=att)
  rets = []
  for batch in (A, B, C):
    rets.append(chk.Check(batch))
  if fresh is not None:
    # the same artifacts through check objects without history: k1 alone,
    # [k2, k1] and k2 alone, each on its own fresh object
    D, E, F = [key(0)], [key(1), key(0)], [key(1)]
    e.notes.update(D=D, E=E, F=F)
    for batch in (D, E, F):
      rets.append(fresh().Check(batch))
  return rets


def patches(rsc, rsa_util, scf, util, chk):
  kst, sst = kernel_stubs()
  ps = [
      (rsa_util, kst),
      (scf, sst),
      (util, dict(Bytes2Int=lambda b: b)),
      (rsc, dict(gmpy=_GMPY, logging=common.QUIET,
                 keypair_generator=FakeKeypairGenerator)),
  ]
  return ps


class _Gmpy(stubs.GmpyStub):

  @staticmethod
  def bit_length(x):
    return x.bit_length()


_GMPY = _Gmpy()


def entry_of(key, name):
  return [r for r in key.test_info.test_results if r.test_name == name]


def b(x):
  return pysym.sbool(x) if not isinstance(x, z3.BoolRef) else x


# ---------------------------------------------------------------------------
# concrete differential oracle (stage-2 confirmation)


def witness_pool():
  """Small concrete moduli >= 2^63 of every degenerate / weak shape."""
  import gmpy2  # pylint: disable=g-import-not-at-top
  np_ = lambda x: int(gmpy2.next_prime(x))
  p32 = [np_(2**31 + 12345), np_(2**32 - 99999), np_(3 * 2**30 + 7)]
  pool = []
  pool.append(('semiprime64', p32[0] * p32[1]))
  pool.append(('semiprime64b', p32[1] * p32[2]))
  pool.append(('prime64', np_(2**63 + 1000)))
  pool.append(('square', np_(2**32 + 15)**2))
  pool.append(('even', 2 * np_(2**63)))
  pool.append(('pow2', 2**64))
  pool.append(('cube', np_(2**22)**3))
  p = np_(2**35 + 4242)
  pool.append(('fermat_close', p * np_(p + 500)))
  # 9-bit pattern prime: rsa_util.CheckFraction(n, 2^9 - 1) factors these
  # (found by search; re-validated by the oracle itself, see below)
  pool.append(('pattern9', 2587633846162595787377))
  pool.append(('pattern9b', 21197614274290115018187937))
  # smooth p-1
  sm = 2
  for f in (3, 5, 7, 11, 13, 17, 19, 23, 29, 31):
    sm *= f
  ps = None
  k = 1
  while ps is None:
    if gmpy2.is_prime(sm * k + 1) and (sm * k + 1) > 2**33:
      ps = sm * k + 1
    k += 1
  pool.append(('smooth', ps * np_(2**34 + 99)))
  pool.append(('lowhw', np_(2**33 + 2**5) * np_(2**34 + 2**7)))
  pool.append(('big_strong', np_(2**100 + 555) * np_(2**101 + 777)))
  # a prime with an 11-bit pattern and swapped 16-bit words: factored by
  # CheckPermutedBitPatterns through a 171-bit denominator (allowed for a
  # 2048-bit modulus only); listed after the smaller keys on purpose
  rnd = random.Random(17)
  pat = rnd.getrandbits(11) | 1
  x = 0
  for i in range(0, 1024 + 11, 11):
    x |= pat << i
  x &= (1 << 1024) - 1
  words = [(x >> (i * 16)) & 0xffff for i in range(64)]
  for i in range(0, 63, 2):
    words[i], words[i + 1] = words[i + 1], words[i]
  y = sum(w << (i * 16) for i, w in enumerate(words)) | (3 << 1022)
  pool.append(('healthy1024', np_(rnd.getrandbits(512) | (3 << 510)) *
               np_(rnd.getrandbits(512) | (3 << 510))))
  pool.append(('permuted11', np_(y) * np_(rnd.getrandbits(1024) |
                                          (3 << 1022))))
  return pool


def keypair_pool():
  """Genuine keys of the vulnerable generator (real keypair_generator, small
  sizes) with neighbours that share their 64 leading bits, and a Storage
  whose table covers their seeds."""
  import gmpy2  # pylint: disable=g-import-not-at-top
  from paranoid_crypto.lib import keypair_generator  # pylint: disable=g-import-not-at-top
  table = {}
  pool = []
  for b0, bits in ((1, 256), (2, 384)):
    seed = bytearray([b0] + [0] * 31)
    p_, q_ = keypair_generator.Generator(seed).generate_key(bits)
    n = p_ * q_
    msb = n >> (n.bit_length() - 64)
    table[msb] = (b0,)
    pool.append(('keypair%d' % b0, n))
    for nm, n2 in (('plus2', n + 2), ('sibling', p_ * int(
        gmpy2.next_prime(q_))), ('nextprime', int(gmpy2.next_prime(n)))):
      if n2.bit_length() == n.bit_length() and n2 >> (
          n2.bit_length() - 64) == msb:
        pool.append(('keypair%d_%s' % (b0, nm), n2))
    pool.append(('keypair%d_again' % b0, n))
  pool.append(('unrelated', int(gmpy2.next_prime(2**127)) * int(
      gmpy2.next_prime(2**128))))

  class Data:
    pass

  data = Data()
  data.table = table

  class KpStorage:

    def GetKeypairData(self):
      return data

  return pool, KpStorage()


def concrete_oracle(check_name, ctor_args_list=None, max_pairs=200):
  """Runs the real check with real protobufs on ordered pairs of witness
  moduli; returns a list of problem descriptions (empty = consistent)."""
  import gmpy2  # pylint: disable=g-import-not-at-top
  pb = common.lib(fakes=False)
  pb2shim.use_fakes(False)
  from paranoid_crypto.lib import rsa_single_checks as rsc  # pylint: disable=g-import-not-at-top
  from paranoid_crypto.lib import util  # pylint: disable=g-import-not-at-top
  pool = witness_pool()
  problems = []
  var = ctor_args_list if ctor_args_list is not None else variants(rsc).get(
      check_name, [()])
  if check_name == 'CheckKeypairDenylist':
    pool, kp_storage = keypair_pool()
    var = [(kp_storage,)]
  for args in var:
    if args == ('storage',):
      args = ()
    try:
      chk = getattr(rsc, check_name)(*args)
    except Exception as ex:  # pylint: disable=broad-except
      problems.append('constructor %r raised %r' % (args, ex))
      continue

    def mk(n):
      k = pb.RSAKey()
      k.rsa_info.n = util.Int2Bytes(n)
      k.rsa_info.e = util.Int2Bytes(65537)
      return k

    def summary(k):
      ents = [(r.test_name, r.result, r.severity)
              for r in k.test_info.test_results]
      fs = util.GetAttachedFactors(k.test_info, 'N_FACTORS')
      return ents, (sorted(fs) if fs else None), k.test_info.weak

    alone = {}
    for nm, n in pool:
      k = mk(n)
      try:
        # no history: a fresh check object per key
        ret = getattr(rsc, check_name)(*args).Check([k])
      except Exception as ex:  # pylint: disable=broad-except
        problems.append('%s%r raised on [%s]: %r' % (check_name, args, nm, ex))
        continue
      alone[nm] = summary(k)
      ents, fs, weak = alone[nm]
      if len(ents) != 1 or ents[0][0] != check_name:
        problems.append('%s%r on [%s]: entries %r' % (check_name, args, nm,
                                                      ents))
      if fs:
        for f in fs:
          if f <= 0 or n % f:
            problems.append('%s%r on [%s]: factor %d does not divide %d' %
                            (check_name, args, nm, f, n))
        if not ents[0][1] or not weak:
          problems.append('%s%r on [%s]: factors without weak flag' %
                          (check_name, args, nm))
      if ret != (len(ents) == 1 and ents[0][1]):
        problems.append('%s%r on [%s]: return %r vs entry %r' %
                        (check_name, args, nm, ret, ents))
    cnt = 0
    for (na, a), (nb, b_) in itertools.permutations(pool, 2):
      if cnt >= max_pairs or na not in alone or nb not in alone:
        continue
      cnt += 1
      ka, kb = mk(a), mk(b_)
      try:
        ret = chk.Check([ka, kb])
      except Exception as ex:  # pylint: disable=broad-except
        problems.append('%s%r raised on [%s, %s]: %r' % (check_name, args, na,
                                                         nb, ex))
        continue
      for nm, k in ((na, ka), (nb, kb)):
        if summary(k) != alone[nm]:
          problems.append(
              '%s%r: %s in batch [%s, %s] -> %r, alone -> %r' %
              (check_name, args, nm, na, nb, summary(k), alone[nm]))
      want = alone[na][0][0][1] or alone[nb][0][0][1] if (
          alone[na][0] and alone[nb][0]) else None
      if want is not None and ret != want:
        problems.append('%s%r on [%s, %s]: return %r, expected %r' %
                        (check_name, args, na, nb, ret, want))
      if len(problems) > 6:
        return problems
  return problems


# ---------------------------------------------------------------------------
# the relational job


RANGES = [(2**159, 2**161), (2**63, 2**65)]


def rsa_single_relational(rec, seed, check, variant, aspects, prop):
  """aspects: subset of {'c01', 'c16', 'c17', 'c18'} - which assertions."""
  import contextlib  # pylint: disable=g-import-not-at-top
  pb, rsc, rsa_util, scf, util, roca = mods()
  args = variants(rsc)[check][variant]
  rec.functions('paranoid_crypto.lib.rsa_single_checks:%s.Check' % check,
                'paranoid_crypto.lib.util:SetTestResult',
                'paranoid_crypto.lib.base_check:BaseCheck._CreateTestResult')
  rec.bounds('%s%r on the batches [k1, k2], [k2], [k2, k1] (same check '
             'object, fresh fake messages); moduli n1 in [2^159, 2^161), n2 '
             'in [2^63, 2^65) symbolic, exponents symbolic; kernels replaced '
             'by memoised contract stubs' % (check, args))
  cexs = []
  reach = 0
  att_holder = {}

  class _Sev:
    severity = None

  chk = _Sev()

  def run(e):
    # a fresh check object per path: state kept by the object is shared by
    # the three batches of one path only
    c_ = make_check(rsc, check, args)
    if check == 'CheckROCA':
      c_._fc = _Detector('ROCAKeyDetector')
    if check == 'CheckROCAVariant':
      c_._fcv = _Detector('ROCAKeyVariantDetector')
    chk.severity = c_.severity

    def fresh():
      f_ = make_check(rsc, check, args)
      if check == 'CheckROCA':
        f_._fc = _Detector('ROCAKeyDetector')
      if check == 'CheckROCAVariant':
        f_._fcv = _Detector('ROCAKeyVariantDetector')
      return f_

    att = Attach()
    att_holder['att'] = att
    with stubs.patched(util, AttachFactors=att):
      rets = run_three(e, pb, rsc, c_, RANGES,
                       fresh if 'c17' in aspects else None)
    e.notes['att'] = att
    return rets

  with contextlib.ExitStack() as st:
    for mod, names in patches(rsc, rsa_util, scf, util, chk):
      st.enter_context(stubs.patched(mod, **names))
    for p in pysym.explore(run, max_paths=4000):
      e = p.eng
      rec.path(p.kind)
      if p.kind == 'abort':
        rec.inconclusive('path aborted: %s' % p.value)
        continue
      if p.kind == 'raise':
        r, m = e.feasible()
        if r == 'sat':
          if 'c18' in aspects:
            cexs.append(('raises %r' % (p.value,), inputs_of(e, m)))
        elif r != 'unsat':
          rec.inconclusive('exception path undecided')
        continue
      A, B, C = e.notes['A'], e.notes['B'], e.notes['C']
      ns = e.notes['ns']
      att = e.notes['att']
      rets = p.value
      goals = []
      owner = {}
      for bi, batch in enumerate((A, B, C)):
        idx = {0: [0, 1], 1: [1], 2: [1, 0]}[bi]
        for k, i in zip(batch, idx):
          owner[id(k.test_info)] = (bi, i, k)
      if 'c18' in aspects:
        goals.append(('returns_bool', z3.BoolVal(all(
            isinstance(r_, (bool, pysym.SBool)) for r_ in rets))))
      if 'c16' in aspects:
        for bi, batch in enumerate((A, B, C)):
          any_res = z3.BoolVal(False)
          for k in batch:
            ents = entry_of(k, check)
            goals.append(('one_entry', z3.BoolVal(
                len(ents) == 1 and len(k.test_info.test_results) == 1)))
            if len(ents) == 1:
              ent = ents[0]
              any_res = z3.Or(any_res, b(ent.result))
              goals.append(('weak_iff_positive',
                            b(k.test_info.weak) == b(ent.result)))
              sev = ent.severity
              ok_sev = T(sev) == chk.severity
              if check == 'CheckLowHammingWeight':
                # documented: SEVERITY_UNKNOWN when only suspected
                has_f = z3.BoolVal(any(c[0] is k.test_info
                                       for c in att.calls))
                ok_sev = z3.If(z3.And(b(ent.result), z3.Not(has_f)),
                               T(sev) == 0, T(sev) == chk.severity)
              goals.append(('severity', ok_sev))
              goals.append(('version', z3.BoolVal(
                  bool(k.test_info.paranoid_lib_version))))
          goals.append(('return_is_or', b(rets[bi]) == any_res))
      if 'c01' in aspects:
        for (ti, name, fs) in att.calls:
          if id(ti) not in owner:
            goals.append(('attach_target', z3.BoolVal(False)))
            continue
          bi, i, k = owner[id(ti)]
          goals.append(('info_name', z3.BoolVal(name == 'N_FACTORS')))
          prod = z3.IntVal(1)
          for f in fs:
            prod = prod * T(f)
          goals.append(('factors_divide_modulus',
                        z3.And(prod == ns[i].t, *[T(f) > 0 for f in fs])
                        if len(fs) == 2 else z3.BoolVal(False)))
          ents = entry_of(k, check)
          goals.append(('factored_key_is_weak', z3.And(
              b(k.test_info.weak), b(ents[0].result)) if len(ents) == 1 else
                        z3.BoolVal(False)))
      if 'c17' in aspects:

        def view(k):
          ents = entry_of(k, check)
          fs = [c[2] for c in att.calls if c[0] is k.test_info]
          return ents, fs

        groups = [[A[1], B[0], C[0]], [A[0], C[1]]]
        if 'D' in e.notes:
          D, E, F = e.notes['D'], e.notes['E'], e.notes['F']
          groups = [[F[0], A[1], B[0], C[0], E[0]], [D[0], A[0], C[1], E[1]]]
        for group in groups:
          v0 = view(group[0])
          for other in group[1:]:
            v1 = view(other)
            goals.append(('same_entry_count', z3.BoolVal(
                len(v0[0]) == len(v1[0]) and len(v0[1]) == len(v1[1]))))
            if len(v0[0]) == len(v1[0]) == 1:
              goals.append(('same_verdict', z3.And(
                  b(v0[0][0].result) == b(v1[0][0].result),
                  T(v0[0][0].severity) == T(v1[0][0].severity))))
            for fa, fb in zip(v0[1], v1[1]):
              goals.append(('same_factors', z3.And(
                  [T(x) == T(y) for x, y in zip(fa, fb)] +
                  [z3.BoolVal(len(fa) == len(fb))])))
      for name, g in goals:
        g = z3.simplify(g)
        if z3.is_true(g):
          rec.obligation('proved')
          continue
        r, m, _ = e.prove(g, timeout_ms=60000)
        if r == 'proved':
          rec.obligation('proved')
        elif r == 'unknown':
          rec.obligation('unknown', '%s %s' % (check, name))
        else:
          cexs.append((name, inputs_of(e, m)))
      if reach == 0:
        r, m = e.feasible()
        if r == 'sat':
          reach = 1
          rec.sample(dict(check=check, ctor_args=repr(args),
                          witness=inputs_of(e, m),
                          kernel_calls=len([x for x in e.log
                                            if x[0] == 'kernel'])))
  rec.reach(1, reach)
  if cexs:
    probs = concrete_oracle(check)
    rec.replayed()
    names = sorted({c[0].split(' ')[0] for c in cexs})
    rec.violation('rsa_single_checks.%s.Check' % check, names[0],
                  '%s; concrete differential oracle: %s' %
                  (', '.join(names), probs[:2] if probs else
                   'no concrete witness found'),
                  cexs[0][1],
                  dict(module='harness.checklevel', function='replay_oracle',
                       args=dict(check=check)), bool(probs))


def rsa_single_rerun(rec, seed, check, first, second):
  """The same key objects through two check objects of the same class one
  after the other (constructor variants `first`, `second`): after the second
  run every key with recorded factors is marked weak, the factors divide the
  modulus and the entry of the check is positive (C01 over re-runs)."""
  import contextlib  # pylint: disable=g-import-not-at-top
  pb, rsc, rsa_util, scf, util, roca = mods()
  va, vb = variants(rsc)[check][first], variants(rsc)[check][second]
  rec.functions('paranoid_crypto.lib.rsa_single_checks:%s.Check' % check,
                'paranoid_crypto.lib.util:SetTestResult')
  rec.bounds('%s%r then %s%r on the same two key objects; moduli symbolic '
             '(n1 in [2^159, 2^161), n2 in [2^63, 2^65)); kernels replaced by '
             'memoised contract stubs' % (check, va, check, vb))
  cexs = []
  reach = 0

  def run(e):
    ca, cb = make_check(rsc, check, va), make_check(rsc, check, vb)
    ns = [ivar(e, 'n%d' % i, lo=lo, hi=hi)
          for i, (lo, hi) in enumerate(RANGES)]
    keys = []
    for i in range(2):
      k = pb.RSAKey()
      k.rsa_info.n = ns[i]
      k.rsa_info.e = ivar(e, 'e%d' % i, lo=0)
      keys.append(k)
    att = Attach()
    e.notes.update(ns=ns, keys=keys, att=att)
    with stubs.patched(util, AttachFactors=att):
      return ca.Check(keys), cb.Check(keys)

  with contextlib.ExitStack() as st:
    for mod, names in patches(rsc, rsa_util, scf, util, None):
      st.enter_context(stubs.patched(mod, **names))
    for p in pysym.explore(run, max_paths=4000):
      e = p.eng
      rec.path(p.kind)
      if p.kind == 'abort':
        rec.inconclusive('path aborted: %s' % p.value)
        continue
      if p.kind == 'raise':
        continue  # totality is C18
      ns, keys, att = e.notes['ns'], e.notes['keys'], e.notes['att']
      goals = []
      for i, k in enumerate(keys):
        mine = [c for c in att.calls if c[0] is k.test_info]
        ents = entry_of(k, check)
        goals.append(('one_entry', z3.BoolVal(len(ents) == 1)))
        for (_, name, fs) in mine:
          prod = z3.IntVal(1)
          for f in fs:
            prod = prod * T(f)
          goals.append(('factors_divide_modulus',
                        z3.And(prod == ns[i].t, *[T(f) > 0 for f in fs])
                        if len(fs) == 2 else z3.BoolVal(False)))
        if mine and len(ents) == 1:
          goals.append(('factored_key_is_weak', z3.And(
              b(k.test_info.weak), b(ents[0].result))))
      for name, g in goals:
        g = z3.simplify(g)
        if z3.is_true(g):
          rec.obligation('proved')
          continue
        r, m, _ = e.prove(g, timeout_ms=60000)
        if r == 'proved':
          rec.obligation('proved')
        elif r == 'unknown':
          rec.obligation('unknown', '%s rerun %s' % (check, name))
        else:
          cexs.append((name, inputs_of(e, m)))
      if reach == 0:
        r, m = e.feasible()
        if r == 'sat':
          reach = 1
          rec.sample(dict(check=check, first=repr(va), second=repr(vb),
                          witness=inputs_of(e, m)))
  rec.reach(1, reach)
  if cexs:
    probs = rerun_oracle(check)
    rec.replayed()
    names = sorted({c[0] for c in cexs})
    rec.violation('rsa_single_checks.%s.Check' % check, names[0],
                  '%s after a re-run; concrete oracle: %s' %
                  (', '.join(names), probs[:2] if probs else
                   'no concrete witness found'), cexs[0][1],
                  dict(module='harness.checklevel',
                       function='replay_rerun_oracle',
                       args=dict(check=check)), bool(probs))


def rerun_oracle(check_name):
  """Real check, real protobufs: a weak parameterisation first, the default
  one afterwards, on witness moduli; recorded factors => weak."""
  pb = common.lib(fakes=False)
  pb2shim.use_fakes(False)
  from paranoid_crypto.lib import rsa_single_checks as rsc  # pylint: disable=g-import-not-at-top
  from paranoid_crypto.lib import util  # pylint: disable=g-import-not-at-top
  import gmpy2  # pylint: disable=g-import-not-at-top
  np_ = lambda x: int(gmpy2.next_prime(x))
  weakest = {'CheckFermat': (1,), 'CheckContinuedFractions': (2**200,),
             'CheckBitPatterns': ([3],), 'CheckPollardpm1': (2,)}
  problems = []
  pool = witness_pool()
  p = np_(2**40 + 4242)
  pool.append(('fermat_100_steps', p * np_(p + 3 * 10**7)))
  for nm, n in pool:
    k = pb.RSAKey()
    k.rsa_info.n = util.Int2Bytes(n)
    k.rsa_info.e = util.Int2Bytes(65537)
    try:
      cls = getattr(rsc, check_name)
      first = cls(*weakest[check_name]) if check_name in weakest else cls()
      first.Check([k])
      cls().Check([k])
    except Exception as ex:  # pylint: disable=broad-except
      problems.append('%s re-run raised on [%s]: %r' % (check_name, nm, ex))
      continue
    fs = util.GetAttachedFactors(k.test_info, 'N_FACTORS')
    ents = [r for r in k.test_info.test_results if r.test_name == check_name]
    if fs and (not k.test_info.weak or len(ents) != 1 or not ents[0].result):
      problems.append('%s re-run on [%s]: factors %r recorded, weak=%r, '
                      'entry=%r' % (check_name, nm, sorted(fs),
                                    k.test_info.weak,
                                    [(r.result) for r in ents]))
    if fs and any(f <= 0 or n % f for f in fs):
      problems.append('%s re-run on [%s]: factor does not divide' %
                      (check_name, nm))
  return problems


def replay_rerun_oracle(check):
  probs = rerun_oracle(check)
  for p_ in probs:
    print(p_)
  return bool(probs)


def rerun_jobs():
  from harness.runner import Job  # pylint: disable=g-import-not-at-top
  out = []
  for nm, a, b_ in (('CheckFermat', 1, 0), ('CheckContinuedFractions', 1, 0),
                    ('CheckBitPatterns', 1, 0), ('CheckPollardpm1', 0, 0),
                    ('CheckHighAndLowBitsEqual', 0, 0),
                    ('CheckLowHammingWeight', 0, 0)):
    out.append(Job('rerun_%s' % nm, rsa_single_rerun,
                   dict(check=nm, first=a, second=b_), timeout=1800, cost=10))
  return out


def replay_oracle(check):
  probs = concrete_oracle(check)
  for p_ in probs:
    print(p_)
  return bool(probs)


def relational_jobs(prop, aspects, tier):
  from harness.runner import Job  # pylint: disable=g-import-not-at-top
  out = []
  names = ['CheckSizes', 'CheckExponents', 'CheckROCA', 'CheckROCAVariant',
           'CheckFermat', 'CheckHighAndLowBitsEqual',
           'CheckContinuedFractions', 'CheckBitPatterns',
           'CheckPermutedBitPatterns', 'CheckPollardpm1',
           'CheckLowHammingWeight', 'CheckUnseededRand',
           'CheckSmallUpperDifferences', 'CheckKeypairDenylist']
  nvar = dict(CheckFermat=2, CheckContinuedFractions=2, CheckBitPatterns=3)
  for nm in names:
    for v in range(nvar.get(nm, 1)):
      out.append(Job('%s_v%d' % (nm, v), rsa_single_relational,
                     dict(check=nm, variant=v, aspects=aspects, prop=prop),
                     timeout=3000, cost=10))
  return out
