"""Contract stubs for C-level dependencies (DESIGN.md 3.1, table of stubs).

Every stub is memoised per path on the z3 argument terms, handles concrete
arguments by calling the real library, and appends its name to USED so that the
evidence can list what a check relied on.
"""
import contextlib
import math

import gmpy2
import z3

from harness import pysym
from harness.pysym import SInt, SBits, SReal, SBool, PathAbort, eng, is_sym

USED = set()


def _c(x):
  return pysym._norm_const(pysym._conc_bitlen(x))


def _memo(key, make):
  e = eng()
  hit = e.memo.get(key)
  if hit is None:
    hit = make()
    e.memo[key] = hit
  return hit


def _key(name, *terms):
  return (name,) + tuple(t.get_id() if hasattr(t, 'get_id') else t
                         for t in terms)


# -- isqrt / is_square -------------------------------------------------------


def isqrt(x):
  USED.add('gmpy.isqrt: r>=0, r^2<=x<(r+1)^2 (exact)')
  x = _c(x)
  if isinstance(x, int):
    return int(gmpy2.isqrt(x))
  if isinstance(x, (SReal, float)):
    raise TypeError("isqrt() requires 'mpz' argument")
  e = eng()
  if isinstance(x, SInt):
    if e.decide(x.t < 0):
      raise ValueError('isqrt() of negative number')

    def make():
      r = e.fresh('isqrt')
      c = z3.And(r >= 0, r * r <= x.t, x.t < (r + 1) * (r + 1))
      e.assume(c)
      return (r, x.t)

    r = _memo(_key('isqrt', x.t), make)[0]
    return SInt(r)
  if isinstance(x, SBits):
    if e.decide(x.t < 0):
      raise ValueError('isqrt() of negative number')
    w = x.w

    def make():
      r = e.fresh('isqrt', 'bv', w)
      half = w // 2  # x < 2^(w-1)  =>  r < 2^ceil((w-1)/2) = 2^(w//2)
      # r < 2^half, so r^2 and (r+1)^2 <= 2^(2*half) fit in w+1 bits
      R = z3.ZeroExt(1, r)
      X = z3.ZeroExt(1, x.t)
      c = z3.And(z3.ULT(r, 1 << half), z3.ULE(R * R, X),
                 z3.ULT(X, (R + 1) * (R + 1)))
      e.assume(c)
      return (r, x.t)

    r = _memo(_key('isqrt', x.t), make)[0]
    return SBits(r)
  raise TypeError('isqrt(%r)' % (x,))


def is_square(x):
  USED.add('gmpy.is_square: isqrt(x)^2 == x')
  x = _c(x)
  if isinstance(x, int):
    return bool(gmpy2.is_square(x))
  e = eng()
  if isinstance(x, (SInt, SBits)):
    if e.decide(x.t < 0):
      return False
    r = isqrt(x)
    if isinstance(x, SBits):
      R = z3.ZeroExt(1, r.t)
      return pysym._wrap_bool(R * R == z3.ZeroExt(1, x.t))
    return pysym._wrap_bool(r.t * r.t == x.t)
  raise TypeError('is_square(%r)' % (x,))


# -- gcd ---------------------------------------------------------------------

GCD_LOG_KEY = 'gcd_calls'


def gcd(a, b):
  """gcd with Bezout contract; records the call in eng().log."""
  USED.add('gmpy.gcd: g>=0, g|a, g|b, g=u*a+v*b (exact)')
  a = _c(a)
  b = _c(b)
  if isinstance(a, int) and isinstance(b, int):
    return int(gmpy2.gcd(a, b))
  e = eng()
  if isinstance(a, SBits) or isinstance(b, SBits):
    return _gcd_bits(a, b)
  at = pysym._int_term(a)
  bt = pysym._int_term(b)

  def make():
    g = e.fresh('gcd')
    u = e.fresh('gcd_u')
    v = e.fresh('gcd_v')
    a1 = e.fresh('gcd_a')
    b1 = e.fresh('gcd_b')
    c = z3.And(g >= 0, at == g * a1, bt == g * b1, g == u * at + v * bt)
    e.assume(c)
    # path facts for exact division by the gcd (x // g == cofactor)
    e.memo[('exactdiv', at.get_id(), g.get_id())] = (a1, at, g)
    e.memo[('exactdiv', bt.get_id(), g.get_id())] = (b1, bt, g)
    return (g, at, bt)

  g = _memo(_key('gcd', at, bt), make)[0]
  e.log.append(('gcd', a, b, SInt(g)))
  return SInt(g)


def _gcd_bits(a, b):
  e = eng()
  w = a.w if isinstance(a, SBits) else b.w
  A = a.t if isinstance(a, SBits) else z3.BitVecVal(a, w)
  B = b.t if isinstance(b, SBits) else z3.BitVecVal(b, w)

  def make():
    # work in 2w+2 bits, signed, so that u*a+v*b cannot wrap when |u|<=|b|,
    # |v|<=|a|
    W = 2 * w + 2
    g = e.fresh('gcd', 'bv', w)
    u = e.fresh('gcd_u', 'bv', w)
    v = e.fresh('gcd_v', 'bv', w)
    a1 = e.fresh('gcd_a', 'bv', w)
    b1 = e.fresh('gcd_b', 'bv', w)
    sx = lambda t: z3.SignExt(W - w, t)
    c = z3.And(g >= 0, sx(A) == sx(g) * sx(a1), sx(B) == sx(g) * sx(b1),
               sx(g) == sx(u) * sx(A) + sx(v) * sx(B))
    e.assume(c)
    return (g, A, B)

  g = _memo(_key('gcd', A, B), make)[0]
  e.log.append(('gcd', a, b, SBits(g)))
  return SBits(g)


# -- invert ------------------------------------------------------------------


def invert(x, m):
  USED.add('gmpy.invert: 0<=w<m, w*x=1 (mod m); ZeroDivisionError if none')
  x = _c(x)
  if isinstance(m, pysym.FieldMod):
    return field_invert(x)
  m = _c(m)
  if isinstance(x, int) and isinstance(m, int):
    return int(gmpy2.invert(x, m))
  e = eng()
  if isinstance(x, SBits) and isinstance(m, int) and m > 1 and \
      gmpy2.is_prime(m):
    w_ = x.w
    if not pysym._fits(m * m, w_):
      raise PathAbort('inconclusive: width too small for invert')
    xm = z3.SRem(x.t, z3.BitVecVal(m, w_))
    xm = z3.If(xm < 0, xm + m, xm)  # x mod m in [0, m)
    if e.decide(xm == 0):
      raise ZeroDivisionError('invert() no inverse exists')

    def makeb():
      w = e.fresh('inv', 'bv', w_)
      e.assume(z3.And(w >= 0, w < m,
                      z3.URem(w * xm, z3.BitVecVal(m, w_)) == 1))
      return (w, x.t)

    return SBits(_memo(_key('invert_bv', x.t, m), makeb)[0])
  if isinstance(x, SBits) or isinstance(m, SBits):
    raise PathAbort('inconclusive: invert on SBits not modelled')
  xt = pysym._int_term(x)
  mt = pysym._int_term(m)
  if isinstance(m, int) and m > 1 and gmpy2.is_prime(m):
    # prime modulus: no inverse exactly when m | x
    if e.decide(xt % m == 0):
      raise ZeroDivisionError('invert() no inverse exists')

    def make0():
      w = e.fresh('inv')
      q = e.fresh('inv_q')
      e.assume(z3.And(w >= 0, w < m, w * xt == 1 + q * m))
      return (w, xt, mt, q)

    return SInt(_memo(_key('invert', xt, mt), make0)[0])
  if e.decide(mt == 0):
    raise ZeroDivisionError('invert() division by 0')
  # existence of the inverse is gcd(x, m) == 1; we model it with a fresh
  # boolean "has inverse" tied to the existence of w: the path with an inverse
  # gets the witness, the path without gets a common divisor > 1.
  hasinv = _memo(_key('hasinv', xt, mt), lambda: (e.fresh('hasinv', 'bool'),
                                                    xt, mt))[0]
  if e.decide(hasinv):

    def make():
      w = e.fresh('inv')
      q = e.fresh('inv_q')
      am = z3.If(mt >= 0, mt, -mt)
      e.assume(z3.And(w >= 0, w < am, w * xt == 1 + q * mt))
      return (w, xt, mt, q)

    w = _memo(_key('invert', xt, mt), make)[0]
    return SInt(w)

  def make2():
    d = e.fresh('cd')
    x1 = e.fresh('cd_x')
    m1 = e.fresh('cd_m')
    am = z3.If(mt >= 0, mt, -mt)
    # a common divisor d > 1 (or |m| == 1 has always an inverse 0... excluded)
    e.assume(z3.And(d > 1, xt == d * x1, mt == d * m1, am > 1))
    return (d, xt, mt)

  _memo(_key('noinvert', xt, mt), make2)
  raise ZeroDivisionError('invert() no inverse exists')


def field_invert(x):
  """Inverse in an abstract field (characteristic-0 abstraction)."""
  USED.add('gmpy.invert (field abstraction): w*x=1; ZeroDivisionError if x=0')
  e = eng()
  xr = pysym._to_sreal(x)
  if isinstance(xr.t, z3.RatNumRef):
    if xr.t.numerator_as_long() == 0:
      raise ZeroDivisionError('invert() no inverse exists')
  if e.decide(xr.t == 0):
    raise ZeroDivisionError('invert() no inverse exists')

  def make():
    w = e.fresh('finv', 'real')
    e.assume(w * xr.t == 1)
    return (w, xr.t)

  w = _memo(_key('finvert', xr.t), make)[0]
  return SReal(w)


# -- misc gmpy ---------------------------------------------------------------


def f_mod_2exp(x, t):
  USED.add('gmpy.f_mod_2exp: x mod 2^t')
  x = _c(x)
  t = _c(t)
  if is_sym(t):
    t = eng().concretize(t.t, 'f_mod_2exp exponent')
  if isinstance(x, int):
    return int(gmpy2.f_mod_2exp(x, t))
  return x % (1 << t)


def mpz(x=0, base=None):
  USED.add('gmpy.mpz: identity')
  if base is not None:
    return int(gmpy2.mpz(x, base))
  if is_sym(x):
    return x
  return int(gmpy2.mpz(x))


def mpq(a, b=1):
  USED.add('gmpy.mpq: exact rational a/b')
  a = _c(a)
  b = _c(b)
  if not is_sym(a) and not is_sym(b):
    q = gmpy2.mpq(a, b)
    return SReal(z3.Q(int(q.numerator), int(q.denominator)))
  return pysym._to_sreal(a) / pysym._to_sreal(b)


def popcount(x):
  USED.add('gmpy.popcount: sum of bits')
  x = _c(x)
  if isinstance(x, int):
    return int(gmpy2.popcount(x))
  if isinstance(x, SBits):
    w = x.w
    # requires x >= 0
    e = eng()
    if e.decide(x.t < 0):
      return -1
    bl = max(1, w.bit_length())
    s = z3.BitVecVal(0, w)
    for i in range(w - 1):
      s = s + z3.ZeroExt(w - 1, z3.Extract(i, i, x.t))
    return pysym._wrap_bits(s)
  raise PathAbort('inconclusive: popcount of unbounded symbolic int')


def _unmodelled(name):

  def f(*a, **k):
    if any(is_sym(x) for x in a):
      raise PathAbort('inconclusive: %s not modelled' % name)
    return getattr(gmpy2, name)(*a, **k)

  return f


class GmpyStub:
  """Stands in for the `gmpy2` module in the analysed module's namespace."""
  isqrt = staticmethod(isqrt)
  is_square = staticmethod(is_square)
  gcd = staticmethod(gcd)
  invert = staticmethod(invert)
  f_mod_2exp = staticmethod(f_mod_2exp)
  mpz = staticmethod(mpz)
  mpq = staticmethod(mpq)
  popcount = staticmethod(popcount)
  is_prime = staticmethod(_unmodelled('is_prime'))
  next_prime = staticmethod(_unmodelled('next_prime'))
  powmod = staticmethod(_unmodelled('powmod'))
  legendre = staticmethod(_unmodelled('legendre'))
  jacobi = staticmethod(_unmodelled('jacobi'))

  def __getattr__(self, name):
    real = getattr(gmpy2, name)
    if not name.startswith('is_'):
      return real
    return predicate_stub(name)


def predicate_stub(name):
  """gmpy predicate on symbolic arguments: arbitrary (memoised, logged)."""
  real = getattr(gmpy2, name)

  def predicate(*a):
    if not any(is_sym(x) for x in a):
      return real(*a)
    USED.add('gmpy.%s: arbitrary predicate of its arguments '
             '(over-approximation)' % name)
    e = eng()
    ts = [pysym.term_of(_c(x)) for x in a]
    key = ('pred', name) + tuple(
        t.get_id() if hasattr(t, 'get_id') else t for t in ts)
    hit = e.memo.get(key)
    if hit is None:
      hit = (e.fresh(name, 'bool'), ts)
      e.memo[key] = hit
    e.log.append(('pred', name, a, hit[0]))
    return pysym._wrap_bool(hit[0])

  return predicate


GMPY = GmpyStub()


def sym_int(x=0, base=None):
  """Replacement for the builtin int() inside analysed modules."""
  if base is not None:
    if hasattr(x, 'sym_int_value'):
      return x.sym_int_value(base)
    return int(x, base)
  if isinstance(x, (SInt, SBits)):
    return x
  if isinstance(x, pysym.SBitLen):
    return x.value()
  if isinstance(x, SBool):
    return x.as_int()
  if isinstance(x, SReal):
    raise PathAbort('inconclusive: int() of symbolic real')
  return int(x)


class _IntMeta(type):

  def __instancecheck__(cls, inst):
    return isinstance(inst, (int, SInt, SBits))

  def __call__(cls, *a, **k):
    return sym_int(*a, **k)


class SymIntType(metaclass=_IntMeta):
  """`int` look-alike: int(x) is the identity on proxies."""
  from_bytes = staticmethod(int.from_bytes)
  to_bytes = staticmethod(int.to_bytes)


@contextlib.contextmanager
def patched(module, **names):
  """Temporarily replaces names in a module's namespace."""
  missing = object()
  old = {}
  for k, v in names.items():
    old[k] = module.__dict__.get(k, missing)
    module.__dict__[k] = v
  try:
    yield
  finally:
    for k, v in old.items():
      if v is missing:
        del module.__dict__[k]
      else:
        module.__dict__[k] = v


def sym_abs(x):
  return abs(x)


def sym_max(*a, **k):
  if len(a) == 1:
    a = list(a[0])
  if not a:
    if 'default' in k:
      return k['default']
    raise ValueError('max() arg is an empty sequence')
  r = a[0]
  for x in a[1:]:
    if x > r:
      r = x
  return r


def sym_min(*a, **k):
  if len(a) == 1:
    a = list(a[0])
  if not a:
    if 'default' in k:
      return k['default']
    raise ValueError('min() arg is an empty sequence')
  r = a[0]
  for x in a[1:]:
    if x < r:
      r = x
  return r
