"""Engine self-validation (Serval-style): the repository's own functions are
run (i) for real and (ii) on proxies whose symbolic inputs are pinned to the
same concrete values by assumptions; the single feasible path must produce the
real result.  This validates the proxy arithmetic (floor division / modulo
witnesses, shifts, bit operations, byte buffers, stubs) on every run."""
import random

import z3

from harness import common
from harness import pysym
from harness import stubs
from harness import symbytes
from harness.pysym import SInt, SBits


def _pin_int(e, name, val):
  t = z3.Int(name)
  e.assume(t == val)
  return SInt(t)


def _pin_bits(e, name, val, width):
  t = z3.BitVec(name, width)
  e.assume(t == z3.BitVecVal(val, width))
  return SBits(t)


def _conc(m, x):
  if x is None or isinstance(x, (bool, str)):
    return x
  if pysym.is_sym(x):
    return pysym.model_value(m, x)
  if isinstance(x, (list, tuple)):
    return type(x)(_conc(m, y) for y in x)
  try:
    return int(x)
  except Exception:  # pylint: disable=broad-except
    return x


def _norm(x):
  if isinstance(x, (list, tuple)):
    return [_norm(y) for y in x]
  if x is None or isinstance(x, (bool, str)):
    return x
  try:
    return int(x)
  except Exception:  # pylint: disable=broad-except
    return x


def run_case(label, fn, args, patches, bits=None):
  """Returns None if proxy execution agrees with the real execution, else a
  description."""
  try:
    want = ('ret', _norm(fn(*args)))
  except Exception as ex:  # pylint: disable=broad-except
    want = ('exc', type(ex).__name__)

  def run(e):
    sargs = []
    for i, a in enumerate(args):
      if isinstance(a, int) and not isinstance(a, bool) and (
          bits is None or bits == 'int' or i in bits):
        if bits and bits != 'int':
          sargs.append(_pin_bits(e, 'a%d' % i, a, bits[i]))
        else:
          sargs.append(_pin_int(e, 'a%d' % i, a))
      elif isinstance(a, list) and a and all(isinstance(v, int) for v in a):
        sargs.append([_pin_int(e, 'a%d_%d' % (i, j), v)
                      for j, v in enumerate(a)])
      else:
        sargs.append(a)
    return fn(*sargs)

  import contextlib  # pylint: disable=g-import-not-at-top
  got = []
  with contextlib.ExitStack() as st:
    for mod, names in patches:
      st.enter_context(stubs.patched(mod, **names))
    for p in pysym.explore(run, max_paths=400):
      r, m = p.eng.feasible()
      if r != 'sat':
        continue
      if p.kind == 'return':
        got.append(('ret', _norm(_conc(m, p.value))))
      elif p.kind == 'raise':
        got.append(('exc', type(p.value).__name__))
      else:
        got.append(('abort', p.value))
  if got == [want]:
    return None
  return '%s%r: real %r, proxies %r' % (label, tuple(args), want, got[:3])


def validate(rec, seed, which):
  common.lib()
  from paranoid_crypto.lib import ntheory_util as nt, rsa_util, linalg_util  # pylint: disable=g-import-not-at-top
  from paranoid_crypto.lib import special_case_factoring as scf  # pylint: disable=g-import-not-at-top
  from paranoid_crypto.lib.randomness_tests import util as rutil, rng  # pylint: disable=g-import-not-at-top
  rnd = random.Random(seed + 99)
  rec.functions('harness/pysym.py (engine self-validation against the real '
                'functions on pinned inputs)')
  cases = []
  G = stubs.GMPY
  if which == 'ntheory':
    for k in (0, 1, 2, 3, 5, 8, 13, 31):
      for _ in range(3):
        x = rnd.getrandbits(max(k, 3)) | 1
        cases.append(('Inverse2exp', nt.Inverse2exp, (x, k),
                      [(nt, dict(gmpy=G))], 'int'))
        y = x - x % 8 + 1
        cases.append(('InverseSqrt2exp', nt.InverseSqrt2exp, (y, k),
                      [(nt, dict(gmpy=G))], 'int'))
        cases.append(('Sqrt2exp', nt.Sqrt2exp, (y, k),
                      [(nt, dict(gmpy=G, int=stubs.sym_int))], 'int'))
    for a, b in ((415, 93), (1, 3), (-7, 2), (2**70 + 5, 2**35 + 1), (0, 5),
                 (12, 0)):
      if b == 0:
        # (longer expansions with both operands symbolic are non-linear for
        # the feasibility solver; the property harness bounds them instead)
        cases.append(('ContinuedFraction', nt.ContinuedFraction, (abs(a), b),
                      [], 'int'))
      if b:
        cases.append(('DivmodRounded', nt.DivmodRounded, (a, b), [], 'int'))
    cases.append(('FastProduct', nt.FastProduct, ([3, 5, 7, 11, 13],), [],
                  'int'))
    cases.append(('ExtendedProductTree', nt.ExtendedProductTree,
                  ([3, 5, 7, 11, 13],), [], 'int'))
  elif which == 'rsa':
    import gmpy2  # pylint: disable=g-import-not-at-top
    np_ = lambda v: int(gmpy2.next_prime(v))
    p, q = np_(2**40 + 7), np_(2**40 + 5000)
    for n, K in ((p * q, 20000), (p * np_(p + 2), 3), (2 * p, 2), (p * p, 2),
                 (p * np_(2**41), 5)):
      cases.append(('FermatFactor', rsa_util.FermatFactor, (n, K),
                    [(rsa_util, dict(gmpy=G))], 'int'))
    for vals in ([6, 10, 15], [7, 11, 13], [21, 21, 35, 2**64 + 13],
                 [3 * 5, 5 * 7, 7 * 11, 11 * 13, 13 * 3]):
      cases.append(('BatchGCD', rsa_util.BatchGCD, (vals,),
                    [(rsa_util, dict(gmpy=G)), (nt, dict(gmpy=G))], 'int'))
    for n in (0x8f5c28f5c28f5c29 * 0x8f5c28f5c28f5c2b, p * q):
      cases.append(('FactorHighAndLowBitsEqual',
                    rsa_util.FactorHighAndLowBitsEqual, (n,),
                    [(rsa_util, dict(gmpy=G)), (nt, dict(gmpy=G))],
                    {0: 200}))
  elif which == 'linalg':
    for A, b in (([[2, 1], [1, 3]], [3, 5]),
                 ([[0, 1, 2], [1, 0, 3], [4, -3, 8]], [1, 2, 3]),
                 ([[1, 2], [2, 4], [1, 1]], [3, 6, 2]),
                 ([[0, 0], [0, 0]], [0, 0])):

      def solve(*flat, A=A, b=b):
        n = len(A[0])
        rows = [list(flat[i * n:(i + 1) * n]) for i in range(len(A))]
        bb = list(flat[len(A) * n:])
        xs = linalg_util.solve_right(rows, bb)
        if xs is None:
          return None
        out = []
        for x in xs:
          if isinstance(x, pysym.SReal):
            out.append(x)
          else:
            out.append(str(x))
        return out

      flat = tuple(v for r in A for v in r) + tuple(b)
      # compare through a rational rendering
      def real(*flat, A=A):
        n = len(A[0])
        rows = [list(flat[i * n:(i + 1) * n]) for i in range(len(A))]
        bb = list(flat[len(A) * n:])
        xs = linalg_util.solve_right(rows, bb)
        return None if xs is None else [str(x) for x in xs]

      try:
        want = real(*flat)
      except Exception as ex:  # pylint: disable=broad-except
        want = type(ex).__name__

      def run(e, flat=flat):
        sflat = [_pin_int(e, 'm%d' % i, v) for i, v in enumerate(flat)]
        return solve(*sflat)

      got = []
      from harness.props import c19  # pylint: disable=g-import-not-at-top
      with stubs.patched(linalg_util, gmpy=G, all=c19._sym_all,
                         sum=c19._sym_sum):
        for p_ in pysym.explore(run, max_paths=200):
          r, m = p_.eng.feasible()
          if r != 'sat':
            continue
          if p_.kind == 'return':
            v = p_.value
            if v is not None:
              vv = []
              for x in v:
                if isinstance(x, pysym.SReal):
                  num, den = pysym.model_int(m, x.t) if isinstance(
                      pysym.model_int(m, x.t), tuple) else (
                          pysym.model_int(m, x.t), 1)
                  vv.append(str(num) if den == 1 else '%d/%d' % (num, den))
                else:
                  vv.append(x)
              v = vv
            got.append(v)
          elif p_.kind == 'raise':
            got.append(type(p_.value).__name__)
      rec.path('validation')
      rec.replayed()
      if got == [want]:
        rec.obligation('proved')
      else:
        rec.inconclusive('engine self-validation: solve_right%r: real %r, '
                         'proxies %r' % (flat, want, got[:3]))
  elif which == 'bits':
    for s_, m_ in ((0b0111011111001, 3), (2**24 - 1, 5), (0, 2),
                   (0xdeadbeef, 8)):
      cases.append(('OverlappingRunsOfOnes', rutil.OverlappingRunsOfOnes,
                    (s_, m_), [(rutil, dict(gmpy=G))], {0: 40}))
      cases.append(('LongestRunOfOnes', rutil.LongestRunOfOnes, (s_,),
                    [(rutil, dict(gmpy=G))], {0: 40}))
      cases.append(('Runs', rutil.Runs, (s_, 34),
                    [(rutil, dict(gmpy=G))], {0: 40}))
    for s_, L, m_ in ((0xabcdef12345, 44, 8), (0xabcdef12345, 44, 5),
                      (1, 16, 8), (0x7fff, 15, 3)):
      cases.append(('SplitSequence', rutil.SplitSequence, (s_, L, m_),
                    [(rutil, dict(gmpy=G, int=symbytes.SymInt))], {0: 64}))
  for label, fn, args, patches, bits in cases:
    rec.path('validation')
    rec.replayed()
    msg = run_case(label, fn, args, patches, bits)
    if msg is None:
      rec.obligation('proved')
    else:
      rec.inconclusive('engine self-validation: ' + msg)
  rec.reach(1, 1)
  rec.bounds('%d concrete test vectors of kind %s pushed through the real '
             'functions and through the proxy engine' % (len(cases) or 4,
                                                         which))
  rec.sample(dict(selftest=which, cases=len(cases)))
