"""cxxsym - symbolic interpreter for the clang JSON AST of the C++
Berlekamp-Massey code (DESIGN.md 3.2).

`clang++ -Xclang -ast-dump=json -Xclang -ast-dump-filter=<fn>` gives the
compiler's own parse of the function; this module interprets the node kinds
that occur there over z3 bit-vectors with state merging at symbolic branches.
Loop bounds must evaluate concretely (sizes and n are concrete per query).
Any node kind outside the supported subset raises Unsupported (the check then
ends inconclusive, never silently).
"""
import copy
import json
import os
import subprocess

import time
import z3

REPO = os.environ.get('VERIF_REPO', '/repo')
CC_FILE = 'paranoid_crypto/lib/randomness_tests/cc_util/berlekamp_massey.cc'


class Unsupported(Exception):
  pass


class _Dead(Exception):
  """Execution whose path condition turned out unsatisfiable."""


class _Flow(Exception):

  def __init__(self, kind, value=None):
    super().__init__(kind)
    self.kind = kind
    self.value = value


def dump_ast(function, clmul):
  flags = ['-mpclmul', '-D__CLMUL__'] if clmul else []
  cmd = ['clang++-14', '-std=c++17', '-I.'] + flags + [
      '-fsyntax-only', '-Xclang', '-ast-dump=json', '-Xclang',
      '-ast-dump-filter=' + function, CC_FILE]
  out = subprocess.run(cmd, cwd=REPO, capture_output=True, text=True,
                       check=False)
  if out.returncode != 0 and not out.stdout:
    raise Unsupported('clang failed: ' + out.stderr[-400:])
  dec = json.JSONDecoder()
  txt = out.stdout
  i = 0
  objs = []
  while i < len(txt):
    while i < len(txt) and txt[i].isspace():
      i += 1
    if i >= len(txt):
      break
    obj, j = dec.raw_decode(txt, i)
    objs.append(obj)
    i = j
  fns = [o for o in objs if o.get('kind') == 'FunctionDecl' and
         o.get('name') == function and any(
             x.get('kind') == 'CompoundStmt' for x in o.get('inner', []))]
  if not fns:
    raise Unsupported('function %s not found in AST' % function)
  return fns[0]


# -- values -------------------------------------------------------------------


TYPES = {
    'int': (32, True), 'unsigned int': (32, False), 'uint64_t': (64, False),
    'unsigned long': (64, False), 'long': (64, True), 'size_t': (64, False),
    'uint8_t': (8, False), 'unsigned char': (8, False), 'bool': (1, False),
    'unsigned long long': (64, False), 'long long': (64, True),
    'std::vector::size_type': (64, False), 'size_type': (64, False),
    'std::vector<unsigned long>::size_type': (64, False),
    'std::vector<unsigned long>::value_type': (64, False),
    'const std::vector<unsigned long>::value_type': (64, False),
    'const unsigned long': (64, False), 'const int': (32, True),
    'std::vector<unsigned char>::size_type': (64, False),
    'const __size_type': (64, False), '__size_type': (64, False),
    'typename std::vector<unsigned long>::size_type': (64, False),
}


def type_of(node):
  t = node.get('type', {})
  q = t.get('desugaredQualType') or t.get('qualType')
  if q in TYPES:
    return TYPES[q]
  q2 = t.get('qualType')
  if q2 in TYPES:
    return TYPES[q2]
  return None


class V:
  """A scalar: python int (concrete) or z3 BitVec, with width/signedness."""
  __slots__ = ('v', 'bits', 'signed', 'sz')

  def __init__(self, v, bits, signed, sz=1):
    if isinstance(v, int):
      v &= (1 << bits) - 1
      if signed and v >= 1 << (bits - 1):
        v -= 1 << bits
      sz = 0
    self.v = v
    self.bits = bits
    self.signed = signed
    self.sz = sz  # tree-size estimate: simplification only on small terms

  @property
  def concrete(self):
    return isinstance(self.v, int)

  def term(self):
    if self.concrete:
      return z3.BitVecVal(self.v, self.bits)
    return self.v

  def cast(self, bits, signed):
    if self.concrete:
      return V(self.v, bits, signed)
    t = self.v
    if bits < self.bits:
      t = z3.Extract(bits - 1, 0, t)
    elif bits > self.bits:
      t = z3.SignExt(bits - self.bits, t) if self.signed else z3.ZeroExt(
          bits - self.bits, t)
    return mk(t, bits, signed, self.sz + 1)

  def __repr__(self):
    return 'V(%r,%d,%s)' % (self.v, self.bits, 's' if self.signed else 'u')


TRUE, FALSE = V(1, 1, False), V(0, 1, False)


def _simp(t):
  t = z3.simplify(t)
  return t


SIMPLIFY_LIMIT = 4000


def mk(t, bits, signed, sz=1):
  if not isinstance(t, int):
    if sz <= SIMPLIFY_LIMIT:
      t = _simp(t)
    if z3.is_bv_value(t):
      t = t.as_long()
  return V(t, bits, signed, min(sz, 10**9))


class Vec:

  def __init__(self, items):
    self.items = list(items)

  def copy(self):
    return Vec(list(self.items))


class Ref:
  """An lvalue."""

  def __init__(self, getter, setter):
    self.get = getter
    self.set = setter


def ite(c, a, b, csz=0):
  """Merge two values under z3 Bool c (csz: size estimate of c)."""
  if isinstance(a, Vec):
    if len(a.items) != len(b.items):
      raise Unsupported('vector sizes differ at a merge point')
    return Vec([ite(c, x, y, csz) for x, y in zip(a.items, b.items)])
  if a.concrete and b.concrete and a.v == b.v:
    return a
  if (not a.concrete) and (not b.concrete) and a.v.eq(b.v):
    return a
  return mk(z3.If(c, a.term(), b.term()), a.bits, a.signed,
            a.sz + b.sz + csz + 1)


def clmul64(x, y):
  """Carry-less product of two 64-bit values -> (hi, lo) 64-bit each.
  Trusted model of the `clmul` helper (PCLMULQDQ / vmull_p64)."""
  if x.concrete and y.concrete:
    r = 0
    for i in range(64):
      if (y.v >> i) & 1:
        r ^= (x.v & (2**64 - 1)) << i
    return V(r >> 64, 64, False), V(r & (2**64 - 1), 64, False)
  # put the concrete / simpler operand into the multiplier role
  if x.concrete and not y.concrete:
    x, y = y, x
  X = z3.ZeroExt(64, x.term())
  r = z3.BitVecVal(0, 128)
  if y.concrete:
    for i in range(64):
      if (y.v >> i) & 1:
        r = r ^ (X << i)
  else:
    Y = y.term()
    for i in range(64):
      bit = z3.Extract(i, i, Y) == 1
      r = r ^ z3.If(bit, X << i, z3.BitVecVal(0, 128))
  sz = x.sz + y.sz + 64
  if sz <= SIMPLIFY_LIMIT:
    r = _simp(r)
  return (mk(z3.Extract(127, 64, r), 64, False, sz),
          mk(z3.Extract(63, 0, r), 64, False, sz))


# -- interpreter --------------------------------------------------------------

BUDGET_S = 600  # per symbolic execution of one function
BRK, CNT = '#break', '#continue'   # per-loop control-flow flags kept in env


class Interp:

  MAX_FORKS = 512

  def __init__(self, fn_ast, prefix=()):
    self.fn = fn_ast
    self.kinds = set()
    self.merges = 0
    self.prefix = list(prefix)
    self.trace = []
    self.pc = []
    self.pending = []
    self.deadline = (time.time() + BUDGET_S) if BUDGET_S else 0

  def _feasible(self, extra):
    s = z3.Solver()
    s.set('timeout', 3000)
    for c in self.pc:
      s.add(c)
    s.add(extra)
    return str(s.check()) != 'unsat'

  def fork(self, cb):
    i = len(self.trace)
    if i < len(self.prefix):
      val = self.prefix[i]
    else:
      t_ok = self._feasible(cb)
      f_ok = self._feasible(z3.Not(cb))
      if t_ok and f_ok:
        val = True
        self.pending.append(self.trace + [False])
      elif t_ok:
        val = True
      elif f_ok:
        val = False
      else:
        # the path condition itself is unsatisfiable (an earlier fork was
        # taken on a solver timeout): no input follows this execution
        raise _Dead()
    self.trace.append(val)
    self.pc.append(cb if val else z3.Not(cb))
    return val

  def call(self, args):
    params = [x for x in self.fn['inner'] if x['kind'] == 'ParmVarDecl']
    body = [x for x in self.fn['inner'] if x['kind'] == 'CompoundStmt'][0]
    env = {}
    for p, a in zip(params, args):
      env[p['id']] = a
    try:
      self.stmt(body, env)
    except _Flow as f:
      if f.kind == 'return':
        return f.value
      raise Unsupported('stray %s' % f.kind)
    raise Unsupported('function fell off the end')

  # statements
  def stmt(self, n, env):
    k = n['kind']
    self.kinds.add(k)
    if self.deadline and time.time() > self.deadline:
      raise Unsupported('time budget of the symbolic execution exhausted')
    if k == 'CompoundStmt':
      self.block(n.get('inner', []), env)
    elif k == 'DeclStmt':
      for d in n['inner']:
        self.decl(d, env)
    elif k == 'ForStmt':
      init, _, cond, inc, body = n['inner']
      if init and init.get('kind'):
        self.stmt(init, env)
      guard = 0
      outer = (env.get(BRK, FALSE), env.get(CNT, FALSE))
      env[BRK], env[CNT] = FALSE, FALSE
      # (condition, state at the break) of iterations that leave the loop
      # under a symbolic condition; the loop itself continues on the state in
      # which the break was not taken, and the exits are merged afterwards
      exits = []
      while True:
        c = self.rvalue(cond, env)
        if not c.concrete:
          raise Unsupported('symbolic loop condition')
        if not c.v:
          break
        try:
          self.stmt(body, env)
        except _Flow as f:
          if f.kind == 'break':
            break
          if f.kind != 'continue':
            raise
        env[CNT] = FALSE
        brk = env[BRK]
        if brk.concrete:
          if brk.v:
            break
        else:
          snap = self.clone(env)
          exits.append((brk.term() != 0, brk.sz, snap))
          env[BRK] = FALSE
          self.merges += 1
        self.expr(inc, env)
        guard += 1
        if guard > 200000:
          raise Unsupported('loop bound')
      for cb, csz, snap in reversed(exits):
        for key in list(env):
          if key in (BRK, CNT):
            continue
          if key not in snap:
            continue  # declared after the exit: dead in the exited state
          x, y = snap[key], env[key]
          if x is not y:
            env[key] = ite(cb, x, y, csz)
      env[BRK], env[CNT] = outer
    elif k == 'IfStmt':
      inner = n['inner']
      cond, then = inner[0], inner[1]
      els = inner[2] if len(inner) > 2 else None
      c = self.rvalue(cond, env)
      if c.concrete:
        if c.v:
          self.stmt(then, env)
        elif els is not None:
          self.stmt(els, env)
        return
      cb = c.term() != 0
      env_t = self.clone(env)
      env_e = self.clone(env)
      try:
        self.branch(then, env_t)
        if els is not None:
          self.branch(els, env_e)
      except _Flow:
        # a return under a symbolic condition cannot be merged: fork the
        # execution on this condition
        val = self.fork(cb)
        if val:
          self.stmt(then, env)
        elif els is not None:
          self.stmt(els, env)
        return
      self.merges += 1
      for key in env:
        a, b = env_t[key], env_e[key]
        if a is b:
          env[key] = a
        else:
          env[key] = ite(cb, a, b, c.sz)
    elif k == 'ReturnStmt':
      raise _Flow('return', self.rvalue(n['inner'][0], env))
    elif k == 'ContinueStmt':
      raise _Flow('continue')
    elif k == 'BreakStmt':
      raise _Flow('break')
    elif k == 'NullStmt':
      pass
    else:
      self.expr(n, env)

  def branch(self, n, env):
    """A branch under a symbolic condition: break / continue become flags in
    the branch's own state (merged with the other branch afterwards)."""
    try:
      self.stmt(n, env)
    except _Flow as f:
      if f.kind == 'break':
        env[BRK] = TRUE
      elif f.kind == 'continue':
        env[CNT] = TRUE
      else:
        raise

  def block(self, stmts, env):
    for i, s in enumerate(stmts):
      self.stmt(s, env)
      b, c = env.get(BRK, FALSE), env.get(CNT, FALSE)
      if b.concrete and c.concrete:
        if b.v:
          raise _Flow('break')
        if c.v:
          raise _Flow('continue')
        continue
      if i + 1 == len(stmts):
        return
      # the rest of the block runs only where neither flag is set
      stop = z3.Or(b.term() != 0, c.term() != 0)
      rest = self.clone(env)
      rest[BRK], rest[CNT] = FALSE, FALSE
      self.branch({'kind': 'CompoundStmt', 'inner': stmts[i + 1:]}, rest)
      self.merges += 1
      csz = b.sz + c.sz
      for key in list(rest):
        if key not in env:
          continue  # declared in the remainder: out of scope afterwards
        x, y = env[key], rest[key]
        if key in (BRK, CNT):
          y = ite(stop, x, y, csz)
          env[key] = y
        elif x is not y:
          env[key] = ite(stop, x, y, csz)
      return

  def clone(self, env):
    return {k: (v.copy() if isinstance(v, Vec) else v) for k, v in env.items()}

  def decl(self, d, env):
    self.kinds.add(d['kind'])
    if d['kind'] != 'VarDecl':
      raise Unsupported('decl kind ' + d['kind'])
    qt = d['type'].get('desugaredQualType') or d['type']['qualType']
    inner = d.get('inner', [])
    if 'vector' in qt:
      init = inner[0] if inner else None
      env[d['id']] = self.vector_ctor(init, env)
      return
    ty = type_of(d)
    if ty is None:
      raise Unsupported('type ' + qt)
    if inner:
      v = self.rvalue(inner[0], env).cast(*ty)
    else:
      v = V(0, *ty)  # uninitialised scalars (hi, lo) are always written first
    env[d['id']] = v

  def vector_ctor(self, n, env):
    while n is not None and n['kind'] in ('ExprWithCleanups',
                                          'MaterializeTemporaryExpr',
                                          'CXXBindTemporaryExpr',
                                          'ImplicitCastExpr'):
      self.kinds.add(n['kind'])
      n = n['inner'][0]
    if n is None or n['kind'] != 'CXXConstructExpr':
      raise Unsupported('vector initialiser')
    self.kinds.add(n['kind'])
    args = [a for a in n.get('inner', []) if a['kind'] != 'CXXDefaultArgExpr']
    if len(args) == 1:
      src = self.expr(args[0], env)
      src = src.get() if isinstance(src, Ref) else src
      if isinstance(src, Vec):
        return src.copy()
      # vector(n): n zero elements
      if src.concrete:
        return Vec([V(0, 64, False) for _ in range(src.v)])
      raise Unsupported('symbolic vector size')
    if len(args) == 2:
      cnt = self.rvalue(args[0], env)
      val = self.rvalue(args[1], env).cast(64, False)
      if not cnt.concrete:
        raise Unsupported('symbolic vector size')
      return Vec([val for _ in range(cnt.v)])
    raise Unsupported('vector constructor with %d args' % len(args))

  # expressions
  def rvalue(self, n, env):
    r = self.expr(n, env)
    if isinstance(r, Ref):
      r = r.get()
    return r

  def expr(self, n, env):
    k = n['kind']
    self.kinds.add(k)
    if k in ('ImplicitCastExpr', 'CStyleCastExpr', 'CXXStaticCastExpr',
             'CXXFunctionalCastExpr'):
      ck = n.get('castKind')
      sub = n['inner'][0]
      if ck in ('LValueToRValue', 'NoOp', 'FunctionToPointerDecay',
                'UncheckedDerivedToBase', 'ArrayToPointerDecay'):
        v = self.expr(sub, env)
        if ck == 'LValueToRValue' and isinstance(v, Ref):
          return v.get()
        return v
      if ck in ('IntegralCast', 'IntegralToBoolean'):
        v = self.rvalue(sub, env)
        ty = type_of(n)
        if ty is None:
          raise Unsupported('cast to ' + str(n.get('type')))
        if ck == 'IntegralToBoolean':
          if v.concrete:
            return V(1 if v.v else 0, 1, False)
          return mk(z3.If(v.term() != 0, z3.BitVecVal(1, 1),
                          z3.BitVecVal(0, 1)), 1, False, v.sz + 1)
        return v.cast(*ty)
      raise Unsupported('cast kind %s' % ck)
    if k == 'ParenExpr':
      return self.expr(n['inner'][0], env)
    if k == 'IntegerLiteral':
      return V(int(n['value']), *(type_of(n) or (32, True)))
    if k == 'CXXBoolLiteralExpr':
      return V(1 if n['value'] else 0, 1, False)
    if k == 'DeclRefExpr':
      ref = n['referencedDecl']
      did = ref['id']
      if ref.get('kind') == 'FunctionDecl':
        return ('fn', ref.get('name'))
      if did not in env:
        raise Unsupported('unknown variable ' + ref.get('name', '?'))
      return Ref(lambda: env[did], lambda v: env.__setitem__(did, v))
    if k in ('ExprWithCleanups', 'MaterializeTemporaryExpr',
             'CXXBindTemporaryExpr'):
      return self.expr(n['inner'][0], env)
    if k == 'UnaryOperator':
      return self.unary(n, env)
    if k == 'BinaryOperator':
      return self.binary(n, env)
    if k == 'CompoundAssignOperator':
      lhs = self.expr(n['inner'][0], env)
      rhs = self.rvalue(n['inner'][1], env)
      cur = lhs.get()
      op = n['opcode'][:-1]
      # computation type
      ct = n.get('computeResultType', {}).get('desugaredQualType') or n.get(
          'computeResultType', {}).get('qualType')
      ty = TYPES.get(ct, (max(cur.bits, rhs.bits), cur.signed and rhs.signed))
      res = self.arith(op, cur.cast(*ty), rhs.cast(*ty) if op not in (
          '<<', '>>') else rhs, ty)
      lhs.set(res.cast(cur.bits, cur.signed))
      return lhs
    if k == 'CXXOperatorCallExpr':
      return self.opcall(n, env)
    if k == 'CXXMemberCallExpr':
      return self.membercall(n, env)
    if k == 'CallExpr':
      return self.callexpr(n, env)
    if k == 'ConditionalOperator':
      c = self.rvalue(n['inner'][0], env)
      if c.concrete:
        return self.rvalue(n['inner'][1 if c.v else 2], env)
      a = self.rvalue(n['inner'][1], env)
      b = self.rvalue(n['inner'][2], env)
      return ite(c.term() != 0, a, b, c.sz)
    raise Unsupported('expression kind ' + k)

  def unary(self, n, env):
    op = n['opcode']
    sub = n['inner'][0]
    if op in ('++', '--'):
      r = self.expr(sub, env)
      cur = r.get()
      new = self.arith('+' if op == '++' else '-', cur, V(1, cur.bits,
                                                          cur.signed),
                       (cur.bits, cur.signed))
      r.set(new)
      return cur if n.get('isPostfix') else new
    if op == '&':
      return ('addr', self.expr(sub, env))
    if op == '*':
      p = self.expr(sub, env)
      if isinstance(p, tuple) and p[0] == 'addr':
        return p[1]
      raise Unsupported('pointer dereference')
    v = self.rvalue(sub, env)
    ty = type_of(n) or (v.bits, v.signed)
    v = v.cast(*ty)
    if op == '-':
      return mk(-v.v if v.concrete else -v.term(), ty[0], ty[1], v.sz + 1)
    if op == '~':
      return mk(~v.v if v.concrete else ~v.term(), ty[0], ty[1], v.sz + 1)
    if op == '!':
      if v.concrete:
        return V(0 if v.v else 1, 1, False)
      return mk(z3.If(v.term() == 0, z3.BitVecVal(1, 1), z3.BitVecVal(0, 1)),
                1, False, v.sz + 1)
    if op == '+':
      return v
    raise Unsupported('unary ' + op)

  def binary(self, n, env):
    op = n['opcode']
    if op == '=':
      lhs = self.expr(n['inner'][0], env)
      rhs = self.rvalue(n['inner'][1], env)
      cur = lhs.get()
      lhs.set(rhs.cast(cur.bits, cur.signed) if isinstance(rhs, V) else rhs)
      return lhs
    if op in ('&&', '||'):
      a = self.rvalue(n['inner'][0], env)
      if a.concrete:
        if (op == '&&' and not a.v) or (op == '||' and a.v):
          return V(1 if a.v else 0, 1, False)
        b = self.rvalue(n['inner'][1], env)
        if b.concrete:
          return V(1 if b.v else 0, 1, False)
        return mk(z3.If(b.term() != 0, z3.BitVecVal(1, 1),
                        z3.BitVecVal(0, 1)), 1, False, b.sz + 1)
      b = self.rvalue(n['inner'][1], env)
      if b.concrete:
        # absorbing / neutral second operand (no side effects in operands)
        if (op == '&&' and not b.v) or (op == '||' and b.v):
          return V(1 if b.v else 0, 1, False)
        return mk(z3.If(a.term() != 0, z3.BitVecVal(1, 1),
                        z3.BitVecVal(0, 1)), 1, False, a.sz + 1)
      ta, tb = a.term() != 0, b.term() != 0
      c = z3.And(ta, tb) if op == '&&' else z3.Or(ta, tb)
      return mk(z3.If(c, z3.BitVecVal(1, 1), z3.BitVecVal(0, 1)), 1, False,
                a.sz + b.sz + 1)
    if op == ',':
      self.expr(n['inner'][0], env)
      return self.expr(n['inner'][1], env)
    a = self.rvalue(n['inner'][0], env)
    b = self.rvalue(n['inner'][1], env)
    ty = type_of(n)
    if op in ('<', '<=', '>', '>=', '==', '!='):
      if a.bits != b.bits or a.signed != b.signed:
        raise Unsupported('comparison of different types (missing cast)')
      return self.compare(op, a, b)
    if ty is None:
      raise Unsupported('type of binary ' + op)
    if op in ('<<', '>>'):
      return self.arith(op, a.cast(*ty), b, ty)
    return self.arith(op, a.cast(*ty), b.cast(*ty), ty)

  def compare(self, op, a, b):
    if a.concrete and b.concrete:
      r = {'<': a.v < b.v, '<=': a.v <= b.v, '>': a.v > b.v, '>=': a.v >= b.v,
           '==': a.v == b.v, '!=': a.v != b.v}[op]
      return V(1 if r else 0, 1, False)
    x, y = a.term(), b.term()
    if a.signed:
      c = {'<': x < y, '<=': x <= y, '>': x > y, '>=': x >= y, '==': x == y,
           '!=': x != y}[op]
    else:
      c = {'<': z3.ULT(x, y), '<=': z3.ULE(x, y), '>': z3.UGT(x, y),
           '>=': z3.UGE(x, y), '==': x == y, '!=': x != y}[op]
    return mk(z3.If(c, z3.BitVecVal(1, 1), z3.BitVecVal(0, 1)), 1, False,
              a.sz + b.sz + 1)

  def arith(self, op, a, b, ty):
    bits, signed = ty
    if a.concrete and b.concrete:
      x, y = a.v, b.v
      if op == '+':
        r = x + y
      elif op == '-':
        r = x - y
      elif op == '*':
        r = x * y
      elif op == '&':
        r = x & y
      elif op == '|':
        r = x | y
      elif op == '^':
        r = x ^ y
      elif op == '<<':
        r = x << y
      elif op == '>>':
        r = x >> y  # arithmetic for negative signed python ints
      elif op == '/':
        if y == 0:
          raise Unsupported('division by zero')
        r = abs(x) // abs(y) * (1 if (x < 0) == (y < 0) else -1)
      elif op == '%':
        if y == 0:
          raise Unsupported('division by zero')
        r = abs(x) % abs(y) * (1 if x >= 0 else -1)
      else:
        raise Unsupported('binary ' + op)
      return V(r, bits, signed)
    x = a.term()
    if op in ('<<', '>>'):
      if not b.concrete:
        raise Unsupported('symbolic shift amount')
      s = b.v
      if s < 0 or s >= bits:
        raise Unsupported('shift amount out of range (UB)')
      if op == '<<':
        return mk(x << s, bits, signed, a.sz + 1)
      return mk((x >> s) if signed else z3.LShR(x, s), bits, signed,
                a.sz + 1)
    y = b.term()
    if op == '+':
      return mk(x + y, bits, signed, a.sz + b.sz + 1)
    if op == '-':
      return mk(x - y, bits, signed, a.sz + b.sz + 1)
    if op == '*':
      return mk(x * y, bits, signed, a.sz + b.sz + 1)
    if op == '&':
      return mk(x & y, bits, signed, a.sz + b.sz + 1)
    if op == '|':
      return mk(x | y, bits, signed, a.sz + b.sz + 1)
    if op == '^':
      return mk(x ^ y, bits, signed, a.sz + b.sz + 1)
    raise Unsupported('symbolic binary ' + op)

  def opcall(self, n, env):
    callee = n['inner'][0]
    name = self._callee_name(callee)
    args = n['inner'][1:]
    if name == 'operator[]':
      vec = self.expr(args[0], env)
      idx = self.rvalue(args[1], env)
      if not idx.concrete:
        raise Unsupported('symbolic vector index')
      i = idx.v

      def getv():
        v = vec.get() if isinstance(vec, Ref) else vec
        if not 0 <= i < len(v.items):
          raise Unsupported('vector index %d out of range %d (UB)' %
                            (i, len(v.items)))
        return v.items[i]

      def setv(x):
        v = vec.get() if isinstance(vec, Ref) else vec
        if not 0 <= i < len(v.items):
          raise Unsupported('vector index %d out of range %d (UB)' %
                            (i, len(v.items)))
        old = v.items[i]
        v.items[i] = x.cast(old.bits, old.signed)

      return Ref(getv, setv)
    if name == 'operator=':
      dst = self.expr(args[0], env)
      src = self.expr(args[1], env)
      src = src.get() if isinstance(src, Ref) else src
      if not isinstance(src, Vec):
        raise Unsupported('operator= on non-vector')
      dst.set(src.copy())
      return dst
    raise Unsupported('operator call ' + str(name))

  def _callee_name(self, n):
    while n['kind'] in ('ImplicitCastExpr', 'ParenExpr'):
      n = n['inner'][0]
    if n['kind'] == 'DeclRefExpr':
      return n['referencedDecl'].get('name')
    if n['kind'] == 'MemberExpr':
      return n.get('name')
    raise Unsupported('callee ' + n['kind'])

  def membercall(self, n, env):
    me = n['inner'][0]
    self.kinds.add(me['kind'])
    name = me.get('name')
    obj = self.expr(me['inner'][0], env)
    vec = obj.get() if isinstance(obj, Ref) else obj
    if name == 'size':
      return V(len(vec.items), 64, False)
    if name == 'empty':
      return V(1 if not vec.items else 0, 1, False)
    if name == 'swap':
      other = self.expr(n['inner'][1], env)
      a, b = obj.get(), other.get()
      obj.set(b)
      other.set(a)
      return None
    raise Unsupported('member call ' + str(name))

  def callexpr(self, n, env):
    name = self._callee_name(n['inner'][0])
    args = n['inner'][1:]
    if name == 'swap':
      a = self.expr(args[0], env)
      b = self.expr(args[1], env)
      x, y = a.get(), b.get()
      a.set(y)
      b.set(x)
      return None
    if name == 'clmul':
      x = self.rvalue(args[0], env).cast(64, False)
      y = self.rvalue(args[1], env).cast(64, False)
      hi_p = self.expr(args[2], env)
      lo_p = self.expr(args[3], env)
      hi, lo = clmul64(x, y)
      hi_p[1].set(hi)
      lo_p[1].set(lo)
      return None
    uf = getattr(self, 'user_functions', {})
    if name in uf:
      vals = []
      for a in args:
        v = self.expr(a, env)
        vals.append(v.get() if isinstance(v, Ref) else v)
      return uf[name](vals)
    raise Unsupported('call to ' + str(name))


def lfsr_length_impl(words, n, clmul, _cache={}):
  """Symbolically runs LfsrLengthImpl(seq, n). words: list of V (64-bit)."""
  key = ('LfsrLengthImpl', clmul)
  if key not in _cache:
    _cache[key] = dump_ast('LfsrLengthImpl', clmul)
  stack = [[]]
  results = []
  first = None
  dead = 0
  while stack:
    prefix = stack.pop()
    it = Interp(_cache[key], prefix)
    try:
      res = it.call([Vec(list(words)), V(n, 32, True)])
    except _Dead:
      stack.extend(it.pending)
      dead += 1
      if first is None:
        first = it
      continue
    results.append((it.pc, res))
    stack.extend(it.pending)
    if first is None:
      first = it
    else:
      first.kinds |= it.kinds
      first.merges += it.merges
    if len(results) + len(stack) > Interp.MAX_FORKS:
      raise Unsupported('more than %d forked executions' % Interp.MAX_FORKS)
  if not results:
    raise Unsupported('every forked execution was infeasible')
  first.forks = len(results)
  first.dead = dead
  if len(results) == 1:
    return results[0][1], first
  # combine the forked executions into one term
  out = results[-1][1]
  for pc, res in reversed(results[:-1]):
    out = ite(z3.And(pc) if pc else z3.BoolVal(True), res, out,
              SIMPLIFY_LIMIT + 1)
  return out, first


def textbook_bm(bits, width=32):
  """Textbook Berlekamp-Massey over GF(2) on z3 Bools (connection
  polynomials C, B; discrepancy = parity of C against the reversed window).
  bits: list of z3 Bool / python bool.  Returns a `width`-bit z3 term for
  the linear complexity (structurally unrelated to the shifted-product
  formulation used by all three implementations)."""
  n = len(bits)
  tobool = lambda b: z3.BoolVal(b) if isinstance(b, bool) else b
  s = [tobool(b) for b in bits]
  C = [z3.BoolVal(i == 0) for i in range(n + 1)]
  B = [z3.BoolVal(i == 0) for i in range(n + 1)]
  L = z3.BitVecVal(0, width)
  for N in range(n):
    B = [z3.BoolVal(False)] + B[:-1]  # B <- x * B
    d = z3.BoolVal(False)
    for i in range(0, N + 1):
      d = z3.Xor(d, z3.And(C[i], s[N - i]))
    d = z3.simplify(d)
    upd = z3.simplify(z3.And(d, z3.ULE(2 * L, z3.BitVecVal(N, width))))
    newC = [z3.simplify(z3.If(d, z3.Xor(c, b), c)) for c, b in zip(C, B)]
    newB = [z3.simplify(z3.If(upd, c, b)) for c, b in zip(C, B)]
    L = z3.simplify(z3.If(upd, z3.BitVecVal(N + 1, width) - L, L))
    C, B = newC, newB
  return L


def lfsr_length(byte_vals, n, clmul, _cache={}):
  """Symbolically runs LfsrLength(seq_bytes, n, &length) -> (ok, length)."""
  key = ('LfsrLength', clmul)
  if key not in _cache:
    _cache[key] = dump_ast('LfsrLength', clmul)
  it = Interp(_cache[key])
  out = {'v': V(0, 32, True)}

  def impl(args):
    res, it2 = lfsr_length_impl(args[0].items, args[1].v if args[1].concrete
                                else None, clmul)
    it.kinds |= it2.kinds
    return res

  it.user_functions = {'LfsrLengthImpl': impl}
  ref = Ref(lambda: out['v'], lambda v: out.__setitem__('v', v))
  ok = it.call([Vec([b.cast(8, False) for b in byte_vals]), V(n, 32, True),
                ('addr', ref)])
  return ok, out['v'], it
