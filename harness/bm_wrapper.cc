// extern "C" entry point around the repository's berlekamp_massey.cc (included
// textually, so that the macros chosen on the command line select the variant).
#include <cstdint>
#include <cstddef>
#include <vector>
#include "paranoid_crypto/lib/randomness_tests/cc_util/berlekamp_massey.cc"

extern "C" int lfsr_len(const uint8_t* data, size_t size, int n) {
  std::vector<uint8_t> seq(data, data + size);
  int length = -2;
  if (!paranoid_crypto::lib::randomness_tests::cc_util::LfsrLength(seq, n, &length))
    return -1;
  return length;
}
