"""Job pool, evidence writer and known-findings handling for ./check."""
import hashlib
import importlib
import json
import multiprocessing as mp
import multiprocessing.connection as mpc
import os
import sys
import time
import traceback

VERIF = os.path.dirname(os.path.dirname(os.path.abspath(__file__)))
REPO = os.environ.get('VERIF_REPO', '/repo')
EVIDENCE_DIR = os.path.join(VERIF, 'evidence')
REPLAY_DIR = os.path.join(EVIDENCE_DIR, 'replay')
KNOWN = os.path.join(VERIF, 'known_findings.json')

EXIT_OK = 0
EXIT_VIOLATION = 1
EXIT_INCONCLUSIVE = 3


class Job:

  def __init__(self, name, fn, params=None, timeout=300, cost=1.0):
    self.name = name
    self.fn = fn
    self.params = params or {}
    self.timeout = timeout
    self.cost = cost


class Recorder:
  """Accumulates what one job established."""

  def __init__(self, name):
    self.d = dict(
        name=name, functions=[], bounds='', paths=0, obligations=0, proved=0,
        violations=[], inconclusive=[], reach_sat=0, reach_needed=0,
        replays=0, samples=[], stubs=[], hints=[], outside=[], notes=[],
        path_kinds={})

  def functions(self, *names):
    for n in names:
      if n not in self.d['functions']:
        self.d['functions'].append(n)

  def bounds(self, text):
    self.d['bounds'] = text

  def outside(self, text):
    self.d['outside'].append(text)

  def hint(self, text):
    if text not in self.d['hints']:
      self.d['hints'].append(text)

  def note(self, text):
    self.d['notes'].append(text)

  def path(self, kind='return'):
    self.d['paths'] += 1
    self.d['path_kinds'][kind] = self.d['path_kinds'].get(kind, 0) + 1

  def obligation(self, verdict, what=''):
    """verdict: 'proved' | 'unknown'  (violations go through violation())."""
    self.d['obligations'] += 1
    if verdict == 'proved':
      self.d['proved'] += 1
    elif verdict == 'unknown':
      self.inconclusive('solver returned unknown: ' + what)
    else:
      raise ValueError(verdict)

  def violation(self, kernel, site, what, inputs, replay, confirmed, tags=()):
    """A solver counterexample.

    confirmed: the concrete replay on the real, un-stubbed code reproduced it.
    """
    self.d['obligations'] += 1
    self.d['violations'].append(
        dict(kernel=kernel, site=site, what=what, inputs=_js(inputs),
             replay=_js(replay), confirmed=bool(confirmed), tags=list(tags)))

  def inconclusive(self, why):
    if len(self.d['inconclusive']) < 50:
      self.d['inconclusive'].append(why)

  def reach(self, needed, sat):
    self.d['reach_needed'] += needed
    self.d['reach_sat'] += sat

  def replayed(self, n=1):
    self.d['replays'] += n

  def sample(self, s):
    if len(self.d['samples']) < 6:
      self.d['samples'].append(_js(s))


def _js(x):
  """Makes x JSON-serialisable (big ints become strings beyond 2^53)."""
  if isinstance(x, bool) or x is None or isinstance(x, str):
    return x
  if isinstance(x, int):
    return x if abs(x) < 2**53 else hex(x)
  if isinstance(x, float):
    return x
  if isinstance(x, dict):
    return {str(k): _js(v) for k, v in x.items()}
  if isinstance(x, (list, tuple, set)):
    return [_js(v) for v in x]
  try:
    return _js(int(x))
  except Exception:  # pylint: disable=broad-except
    return repr(x)


def _child(job, conn, seed):
  t0 = time.time()
  rec = Recorder(job.name)
  try:
    sys.setrecursionlimit(20000)
    from harness import pysym, stubs  # pylint: disable=g-import-not-at-top
    pysym.STATS = pysym.Stats()
    stubs.USED.clear()
    try:
      job.fn(rec, seed=seed, **job.params)
    except pysym.PathAbort as a:
      rec.inconclusive('job aborted: %s' % a.reason)
    except Exception:  # pylint: disable=broad-except
      rec.inconclusive('harness error: ' + traceback.format_exc()[-1500:])
    rec.d['stats'] = pysym.STATS.as_dict()
    rec.d['stubs'] = sorted(set(rec.d['stubs']) | stubs.USED)
  except BaseException:  # pylint: disable=broad-except
    rec.inconclusive('harness crash: ' + traceback.format_exc()[-1500:])
    rec.d.setdefault('stats', {})
  rec.d['wall_s'] = round(time.time() - t0, 3)
  try:
    conn.send(rec.d)
  except Exception:  # pylint: disable=broad-except
    conn.send(dict(name=job.name, inconclusive=['result not serialisable'],
                   violations=[], stats={}, wall_s=0))
  conn.close()


def run_jobs(jobs, seed, nproc=None, verbose=True):
  nproc = nproc or int(os.environ.get('VERIF_JOBS', '16'))
  ctx = mp.get_context('fork')
  pending = sorted(jobs, key=lambda j: -j.cost)
  running = {}
  results = {}
  while pending or running:
    while pending and len(running) < nproc:
      j = pending.pop(0)
      pc, cc = ctx.Pipe(duplex=False)
      p = ctx.Process(target=_child, args=(j, cc, seed), daemon=True)
      p.start()
      cc.close()
      running[pc] = (j, p, time.time())
    ready = mpc.wait(list(running.keys()), timeout=0.5)
    now = time.time()
    for c in list(running.keys()):
      j, p, t0 = running[c]
      if c in ready:
        try:
          d = c.recv()
        except EOFError:
          d = dict(name=j.name, violations=[], stats={},
                   inconclusive=['worker died (exit %s)' % p.exitcode],
                   wall_s=round(now - t0, 2))
        p.join(5)
        if p.is_alive():
          p.kill()
        del running[c]
        results[j.name] = d
        if verbose:
          print('  job %-46s %6.1fs paths=%-5s proved=%s/%s viol=%d inc=%d' %
                (j.name, d.get('wall_s', 0), d.get('paths', '-'),
                 d.get('proved', '-'), d.get('obligations', '-'),
                 len(d.get('violations', [])), len(d.get('inconclusive', []))),
                flush=True)
      elif now - t0 > j.timeout:
        p.kill()
        p.join(5)
        del running[c]
        results[j.name] = dict(
            name=j.name, violations=[], stats={},
            inconclusive=['job timeout after %ds' % j.timeout],
            wall_s=round(now - t0, 2))
        if verbose:
          print('  job %-46s TIMEOUT after %ds' % (j.name, j.timeout),
                flush=True)
  return [results[j.name] for j in jobs]


def load_known():
  if not os.path.exists(KNOWN):
    return []
  with open(KNOWN) as f:
    return json.load(f).get('findings', [])


def match_known(prop, v, known):
  for k in known:
    if k.get('status', 'known') != 'known':
      continue  # 'fixed' entries suppress nothing
    if k['property'] != prop:
      continue
    kk = k['kernel'] if isinstance(k['kernel'], list) else [k['kernel']]
    ks = k['site'] if isinstance(k['site'], list) else [k['site']]
    if v['kernel'] not in kk or v['site'] not in ks:
      continue
    cond = k.get('condition')
    if cond and cond not in v.get('tags', []):
      continue
    return k
  return None


def file_hashes(functions):
  out = {}
  for f in functions:
    mod = f.split(':')[0]
    path = os.path.join(REPO, mod.replace('.', '/') + '.py')
    if not os.path.exists(path):
      path = os.path.join(REPO, mod)
    if os.path.exists(path) and path not in out:
      with open(path, 'rb') as fh:
        out[path] = hashlib.sha256(fh.read()).hexdigest()[:16]
  return out


def main(argv):
  import argparse  # pylint: disable=g-import-not-at-top
  ap = argparse.ArgumentParser()
  ap.add_argument('prop')
  ap.add_argument('--tier', default=os.environ.get('VERIF_TIER', 'quick'))
  ap.add_argument('--replay')
  ap.add_argument('--only', help='comma separated job name substrings')
  ap.add_argument('--no-evidence', action='store_true')
  args = ap.parse_args(argv)
  prop = args.prop.upper()
  tier = args.tier if args.tier in ('quick', 'thorough') else 'quick'
  seed = int(os.environ.get('VERIF_SEED', '0') or 0)
  mod = importlib.import_module('harness.props.' + prop.lower())
  if args.replay:
    with open(args.replay) as f:
      r = json.load(f)
    m = importlib.import_module(r['replay']['module'])
    ok = getattr(m, r['replay']['function'])(**r['replay']['args'])
    print('replay reproduces the violation' if ok else
          'replay does NOT reproduce')
    return EXIT_VIOLATION if ok else EXIT_OK
  t0 = time.time()
  jobs = mod.jobs(tier, seed)
  if args.only:
    subs = args.only.split(',')
    jobs = [j for j in jobs if any(s in j.name for s in subs)]
  print('== %s tier=%s seed=%d jobs=%d' % (prop, tier, seed, len(jobs)),
        flush=True)
  results = run_jobs(jobs, seed)
  known = load_known()
  os.makedirs(REPLAY_DIR, exist_ok=True)
  n_viol = 0
  n_known = 0
  inconclusive = []
  known_lines = []
  viol_lines = []
  for d in results:
    for why in d.get('inconclusive', []):
      inconclusive.append('%s: %s' % (d['name'], why))
    if d.get('reach_needed', 0) > d.get('reach_sat', 0):
      inconclusive.append('%s: vacuous - reachability twin %d/%d' %
                          (d['name'], d['reach_sat'], d['reach_needed']))
    for i, v in enumerate(d.get('violations', [])):
      if not v['confirmed']:
        inconclusive.append(
            '%s: UNCONFIRMED counterexample (%s at %s: %s)' %
            (d['name'], v['kernel'], v['site'], v['what']))
        continue
      k = match_known(prop, v, known)
      if k is not None:
        n_known += 1
        line = 'KNOWN-FINDING: property=%s %s [%s] %s' % (
            prop, k['id'], v['kernel'], k['what'])
        if line not in known_lines:
          known_lines.append(line)
        continue
      n_viol += 1
      path = os.path.join(REPLAY_DIR, '%s-%s-%d.json' % (prop, d['name'], i))
      with open(path, 'w') as f:
        json.dump(dict(property=prop, job=d['name'], **v), f, indent=1)
      viol_lines.append('VIOLATION property=%s replay=%s' % (prop, path))
      print('  violation: %s at %s: %s inputs=%s' %
            (v['kernel'], v['site'], v['what'], json.dumps(v['inputs'])[:400]))
  for line in known_lines:
    print(line)
  for line in viol_lines:
    print(line)
  wall = time.time() - t0
  if not args.no_evidence and not args.only:
    write_evidence(mod, prop, tier, seed, results, wall, n_viol, n_known,
                   inconclusive)
  if n_viol:
    return EXIT_VIOLATION
  if inconclusive:
    print('INCONCLUSIVE (%d):' % len(inconclusive))
    for w in inconclusive[:20]:
      print('   ' + w[:600])
    return EXIT_INCONCLUSIVE
  print('OK %s: %d jobs, %d paths, %d obligations discharged, %.1fs' %
        (prop, len(results), sum(d.get('paths', 0) for d in results),
         sum(d.get('proved', 0) for d in results), wall))
  return EXIT_OK


def write_evidence(mod, prop, tier, seed, results, wall, n_viol, n_known,
                   inconclusive):
  os.makedirs(EVIDENCE_DIR, exist_ok=True)
  functions = []
  stubs = set()
  hints = set()
  outside = list(getattr(mod, 'OUTSIDE', []))
  samples = []
  q = dict(sat=0, unsat=0, unknown=0, solver_s=0.0, feasibility_queries=0,
           feasibility_unknown=0, cross_checked=0, cross_agree=0,
           cross_disagree=0)
  per_job = []
  for d in results:
    for f in d.get('functions', []):
      if f not in functions:
        functions.append(f)
    stubs.update(d.get('stubs', []))
    hints.update(d.get('hints', []))
    for o in d.get('outside', []):
      if o not in outside:
        outside.append(o)
    st = d.get('stats', {})
    for k in q:
      q[k] += st.get(k, 0)
    for s in d.get('samples', [])[:2]:
      if len(samples) < 12:
        samples.append(dict(job=d['name'], case=s))
    per_job.append(
        dict(job=d['name'], bounds=d.get('bounds', ''),
             paths=d.get('paths', 0), path_kinds=d.get('path_kinds', {}),
             obligations=d.get('obligations', 0), proved=d.get('proved', 0),
             violations=len(d.get('violations', [])),
             reachability=[d.get('reach_sat', 0), d.get('reach_needed', 0)],
             replays=d.get('replays', 0), wall_s=d.get('wall_s', 0),
             solver_s=st.get('solver_s', 0), notes=d.get('notes', [])))
  paths = sum(d.get('paths', 0) for d in results)
  total_q = q['sat'] + q['unsat'] + q['unknown'] + q['feasibility_queries']
  if not samples:
    samples = [dict(job=d['name'], case=d.get('bounds', ''))
               for d in results[:3]]
  ev = dict(
      property_id=prop, tier=tier, seed=seed, level='model_checking',
      coverage=dict(
          states=max(paths, 1), transitions=max(total_q, 1),
          traces_validated_against_impl=sum(
              d.get('replays', 0) for d in results),
          samples=samples, exhaustive=False,
          explanation=(
              'states = symbolic paths explored over the real functions; '
              'transitions = solver queries (obligations + branch '
              'feasibility); each obligation is decided by z3 for every value '
              'of the symbolic inputs inside the stated bounds'),
          functions_encoded=functions, source_hashes=file_hashes(functions),
          obligations=sum(d.get('obligations', 0) for d in results),
          discharged=sum(d.get('proved', 0) for d in results),
          queries=q, solver_time_s=round(q['solver_s'], 2),
          known_findings_hit=n_known, inconclusive=inconclusive[:20],
          reachability_twins=[
              sum(d.get('reach_sat', 0) for d in results),
              sum(d.get('reach_needed', 0) for d in results)],
          jobs=per_job, stubs=sorted(stubs), hints=sorted(hints),
          outside_claim=outside),
      assumptions=sorted(stubs) + list(getattr(mod, 'ASSUMPTIONS', [])),
      wall_s=round(wall, 2), violations=n_viol)
  with open(os.path.join(EVIDENCE_DIR, prop + '.json'), 'w') as f:
    json.dump(ev, f, indent=1)


if __name__ == '__main__':
  sys.exit(main(sys.argv[1:]))
