"""Shared helpers for property harnesses."""
import logging as _pylogging
import sys
import types

import z3

from harness import pb2shim
from harness import pysym
from harness import stubs
from harness.pysym import SInt, SBits, SReal, SBool


class _Quiet:
  """absl.logging stand-in: all output dropped (DESIGN 3.1: logging = no-op)."""

  def __getattr__(self, name):
    return lambda *a, **k: None


QUIET = _Quiet()


def lib(fakes=False):
  """Installs the pb2/pybind shims and silences absl logging."""
  pb = pb2shim.install(fakes=fakes)
  pb2shim.install_pybind_shim()
  try:
    from absl import logging as absl_logging  # pylint: disable=g-import-not-at-top
    absl_logging.set_verbosity(absl_logging.FATAL)
    absl_logging.warning = lambda *a, **k: None
    absl_logging.info = lambda *a, **k: None
    absl_logging.error = lambda *a, **k: None
  except Exception:  # pylint: disable=broad-except
    pass
  _pylogging.disable(_pylogging.CRITICAL)
  return pb


def ivar(e, name, lo=None, hi=None):
  """A symbolic unbounded integer input with lo <= v < hi."""
  t = z3.Int(name)
  if lo is not None:
    e.assume(t >= lo)
  if hi is not None:
    e.assume(t < hi)
  e.notes.setdefault('inputs', {})[name] = t
  return SInt(t)


def bvar(e, name, width, lo=None, hi=None):
  """A symbolic fixed-width (signed, width bits) integer input lo <= v < hi."""
  t = z3.BitVec(name, width)
  if lo is not None:
    e.assume(t >= lo)
  if hi is not None:
    e.assume(t < hi)
  e.notes.setdefault('inputs', {})[name] = t
  return SBits(t)


def rvar(e, name):
  t = z3.Real(name)
  e.notes.setdefault('inputs', {})[name] = t
  return SReal(t)


def boolvar(e, name):
  t = z3.Bool(name)
  e.notes.setdefault('inputs', {})[name] = t
  return SBool(t)


def inputs_of(e, m):
  out = {}
  for k, t in e.notes.get('inputs', {}).items():
    try:
      v = pysym.model_int(m, t)
    except ValueError:
      # e.g. an irrational algebraic number in a model over the reals
      v = str(m.eval(t, model_completion=True))
    if z3.is_bv(t) and isinstance(v, int) and v >= 1 << (t.size() - 1):
      v -= 1 << t.size()
    out[k] = v
  return out


def T(x):
  """z3 term of a proxy or python number (Int sort for ints)."""
  x = pysym._norm_const(x)
  if isinstance(x, pysym.SBitLen):
    x = x.value()
  if isinstance(x, (SInt, SBits, SReal, SBool)):
    return x.t
  if isinstance(x, bool):
    return z3.BoolVal(x)
  if isinstance(x, int):
    return z3.IntVal(x)
  raise TypeError('no term for %r' % (x,))


def TB(x, w):
  """bit-vector term of width w."""
  x = pysym._norm_const(x)
  if isinstance(x, SBits):
    return x.t
  if isinstance(x, int):
    return z3.BitVecVal(x, w)
  raise TypeError('no bv term for %r' % (x,))


def overflow_free(rec, e, what, timeout_ms=30000):
  """Discharges the no-overflow side conditions of SBits arithmetic."""
  conds = e.notes.get('overflow', [])
  if not conds:
    return True
  r, m, _ = e.prove(z3.And(*conds), timeout_ms=timeout_ms)
  if r == 'proved':
    rec.obligation('proved')
    return True
  if r == 'unknown':
    rec.obligation('unknown', 'overflow side condition ' + what)
    return False
  rec.inconclusive('bit-vector width too small (overflow possible): ' + what)
  return False


def smt2_of(solver, limit=4000):
  s = solver.to_smt2()
  return s if len(s) <= limit else s[:limit] + '\n; ... truncated'
