"""pysym - run real Python functions of /repo on proxies that wrap z3 terms.

Every branch on a symbolic value forks the path (depth-first over decision
prefixes with re-execution); feasibility is decided by z3.  At the end of a
path the harness states obligations which are discharged by z3 with all path
constraints and definitional constraints.

See DESIGN.md section 3.1.
"""
import itertools
import time

import z3

try:
  import gmpy2 as _gmpy
  _MPZ = type(_gmpy.mpz(0))
  _MPQ = type(_gmpy.mpq(1, 2))
except Exception:  # pragma: no cover
  _gmpy = None
  _MPZ = ()
  _MPQ = ()

z3.set_param('smt.random_seed', 7)
z3.set_param('sat.random_seed', 7)


class PathAbort(BaseException):
  """Raised to abandon the current path (not an Exception on purpose)."""

  def __init__(self, reason):
    super().__init__(reason)
    self.reason = reason


class Stats:

  def __init__(self):
    self.sat = 0
    self.unsat = 0
    self.unknown = 0
    self.solver_s = 0.0
    self.feas_queries = 0
    self.feas_unknown = 0
    # proved obligations re-decided by an independent solver build
    self.cross_checked = 0
    self.cross_agree = 0
    self.cross_disagree = 0

  def add(self, r, dt):
    self.solver_s += dt
    if r == 'sat':
      self.sat += 1
    elif r == 'unsat':
      self.unsat += 1
    else:
      self.unknown += 1

  def as_dict(self):
    return dict(
        sat=self.sat, unsat=self.unsat, unknown=self.unknown,
        solver_s=round(self.solver_s, 3), feasibility_queries=self.feas_queries,
        feasibility_unknown=self.feas_unknown,
        cross_checked=self.cross_checked, cross_agree=self.cross_agree,
        cross_disagree=self.cross_disagree)

  def merge(self, d):
    self.sat += d.get('sat', 0)
    self.unsat += d.get('unsat', 0)
    self.unknown += d.get('unknown', 0)
    self.solver_s += d.get('solver_s', 0)
    self.feas_queries += d.get('feasibility_queries', 0)
    self.feas_unknown += d.get('feasibility_unknown', 0)
    self.cross_checked += d.get('cross_checked', 0)
    self.cross_agree += d.get('cross_agree', 0)
    self.cross_disagree += d.get('cross_disagree', 0)


CUR = None  # current Engine
STATS = Stats()


def eng():
  if CUR is None:
    raise RuntimeError('no active pysym engine')
  return CUR


class Engine:
  """State of one path."""

  def __init__(self, prefix, feas_timeout_ms=2000, max_decisions=20000):
    self.prefix = list(prefix)
    self.trace = []
    self.alternates = []
    self.solver = z3.Solver()
    self.solver.set('timeout', feas_timeout_ms)
    self.constraints = []  # everything asserted in the feasibility solver
    self.defs = []  # total definitions kept out of the feasibility solver
    self.model = None
    self.memo = {}
    self.decided = {}
    self.fresh_counter = itertools.count()
    self.max_decisions = max_decisions
    self.maybe_infeasible = False
    self.log = []  # harness-visible event log (stub calls etc.)
    self.notes = {}

  # -- variables --------------------------------------------------------
  def fresh(self, name, sort='int', width=None):
    n = '%s!%d' % (name, next(self.fresh_counter))
    if sort == 'int':
      return z3.Int(n)
    if sort == 'real':
      return z3.Real(n)
    if sort == 'bool':
      return z3.Bool(n)
    if sort == 'bv':
      return z3.BitVec(n, width)
    raise ValueError(sort)

  # -- constraints ------------------------------------------------------
  def assume(self, c):
    """Adds a constraint that takes part in branch feasibility."""
    c = _as_bool_term(c)
    self.constraints.append(c)
    self.solver.add(c)
    self.model = None

  def define(self, c):
    """Adds a total definition (held back for final obligations)."""
    self.defs.append(_as_bool_term(c))

  # -- branching --------------------------------------------------------
  def _check(self, extra=None):
    t0 = time.time()
    if extra is not None:
      self.solver.push()
      self.solver.add(extra)
    r = str(self.solver.check())
    m = None
    if r == 'sat':
      m = self.solver.model()
    if extra is not None:
      self.solver.pop()
    STATS.feas_queries += 1
    STATS.solver_s += time.time() - t0
    if r == 'unknown':
      STATS.feas_unknown += 1
    return r, m

  def decide(self, cond):
    cond = z3.simplify(cond)
    if z3.is_true(cond):
      return True
    if z3.is_false(cond):
      return False
    cid = cond.get_id()
    hit = self.decided.get(cid)
    if hit is not None:
      # the same condition was already decided on this path
      return hit[0]
    val = self._decide(cond)
    self.decided[cid] = (val, cond)
    return val

  def _decide(self, cond):
    i = len(self.trace)
    if i >= self.max_decisions:
      raise PathAbort('bound-hit: too many decisions')
    if i < len(self.prefix):
      val = self.prefix[i]
      self.trace.append(val)
      lit = cond if val else z3.Not(cond)
      self.constraints.append(lit)
      self.solver.add(lit)
      self.model = None
      return val
    # a new decision
    side = None
    if self.model is None:
      r, m = self._check()
      if r == 'unsat':
        raise PathAbort('infeasible')
      if r == 'sat':
        self.model = m
    if self.model is not None:
      v = self.model.eval(cond, model_completion=True)
      if z3.is_true(v):
        side = True
      elif z3.is_false(v):
        side = False
    if side is None:
      r, m = self._check(cond)
      if r == 'sat':
        side = True
        self.model = m
      elif r == 'unsat':
        # forced False (if the path is feasible at all)
        self._take(cond, False)
        return False
      else:
        r2, m2 = self._check(z3.Not(cond))
        if r2 == 'unsat':
          self._take(cond, True)
          return True
        # both sides possibly feasible
        self.alternates.append((self.trace + [False], True))
        self._take(cond, True)
        self.model = None
        self.maybe_infeasible = True
        return True
    other = z3.Not(cond) if side else cond
    r, m = self._check(other)
    if r == 'sat':
      self.alternates.append((self.trace + [not side], False))
    elif r == 'unknown':
      self.alternates.append((self.trace + [not side], True))
    self._take(cond, side, keep_model=True)
    return side

  def _take(self, cond, val, keep_model=False):
    self.trace.append(val)
    lit = cond if val else z3.Not(cond)
    self.constraints.append(lit)
    self.solver.add(lit)
    if not keep_model:
      self.model = None

  def concretize(self, term, what='value'):
    """Forks over the feasible values of an integer/bit-vector term."""
    term = z3.simplify(term)
    v = _const_value(term)
    if v is not None:
      return v
    for _ in range(100000):
      if self.model is None or True:
        r, m = self._check()
        if r == 'unsat':
          raise PathAbort('infeasible')
        if r != 'sat':
          raise PathAbort('inconclusive: cannot concretize ' + what)
        self.model = m
      mv = self.model.eval(term, model_completion=True)
      val = _const_value(mv)
      if val is None:
        raise PathAbort('inconclusive: cannot concretize ' + what)
      if z3.is_bv(term):
        c = term == z3.BitVecVal(val, term.size())
      else:
        c = term == val
      if self.decide(c):
        return val
    raise PathAbort('bound-hit: concretize')

  # -- obligations ------------------------------------------------------
  def all_constraints(self):
    return list(self.constraints) + list(self.defs)

  def check_sat(self, extra=(), timeout_ms=30000, use_defs=True):
    s = z3.Solver()
    s.set('timeout', timeout_ms)
    for c in self.constraints:
      s.add(c)
    if use_defs:
      for c in self.defs:
        s.add(c)
    for c in extra:
      s.add(_as_bool_term(c))
    t0 = time.time()
    r = str(s.check())
    dt = time.time() - t0
    STATS.add(r, dt)
    m = s.model() if r == 'sat' else None
    return r, m, s

  def prove(self, goal, hints=(), timeout_ms=30000, use_defs=True):
    """Returns ('proved'|'cex'|'unknown', model, solver).

    use_defs=False proves from fewer assumptions (sound, cheaper); a 'cex'
    obtained that way may violate a definition and must be replayed."""
    goal = _as_bool_term(goal)
    r, m, s = self.check_sat(
        extra=list(hints) + [z3.Not(goal)], timeout_ms=timeout_ms,
        use_defs=use_defs)
    if r == 'unsat':
      if _cross_check(s) == 'sat':
        # two solver builds disagree: no verdict
        return 'unknown', None, s
      return 'proved', None, s
    if r == 'sat':
      return 'cex', m, s
    return 'unknown', None, s

  def feasible(self, timeout_ms=30000):
    r, m, _ = self.check_sat(timeout_ms=timeout_ms)
    return r, m


# ---------------------------------------------------------------------------
# second opinion on proved obligations

CROSS_BIN = '/usr/bin/z3'  # z3 4.8.12 (the Python API in use is z3 5.1)
CROSS_BIN2 = '/usr/bin/cvc5'  # cvc5 1.0.3
_CROSS_LEFT = [None]


def _cross_check(solver):
  """Re-decides the first VERIF_CROSS_N proved obligations of this process
  with two independent solvers (z3 4.8.12 and cvc5 1.0.3 binaries, SMT-LIB2
  dump, 10 s each).  Returns the
  second verdict ('unsat', 'sat', 'unknown') or None when not sampled."""
  import os  # pylint: disable=g-import-not-at-top
  if _CROSS_LEFT[0] is None:
    try:
      _CROSS_LEFT[0] = int(os.environ.get('VERIF_CROSS_N', '0') or 0)
    except ValueError:
      _CROSS_LEFT[0] = 0
    if not os.path.exists(CROSS_BIN):
      _CROSS_LEFT[0] = 0
  if _CROSS_LEFT[0] <= 0:
    return None
  _CROSS_LEFT[0] -= 1
  import subprocess  # pylint: disable=g-import-not-at-top
  import tempfile  # pylint: disable=g-import-not-at-top
  try:
    text = solver.to_smt2()
    if len(text) > 4 * 10**6:
      return None
    with tempfile.NamedTemporaryFile('w', suffix='.smt2', delete=False) as f:
      f.write(text)
      name = f.name
    outs = []
    try:
      for cmd in ([CROSS_BIN, '-T:10', '-smt2', name],
                  [CROSS_BIN2, '--tlimit=10000', name]):
        if not os.path.exists(cmd[0]):
          continue
        try:
          outs.append(subprocess.run(cmd, capture_output=True, text=True,
                                     timeout=25, check=False).stdout)
        except subprocess.TimeoutExpired:
          outs.append('')
    finally:
      os.unlink(name)
  except Exception:  # pylint: disable=broad-except
    return None
  STATS.cross_checked += 1
  verdicts = []
  for out in outs:
    lines = [l.strip() for l in out.splitlines() if l.strip()]
    if any(l.startswith('(error') for l in lines):
      verdicts.append('unknown')
      continue
    # (cvc5 prints warnings about the missing set-logic on stderr only)
    v = [l for l in lines if l in ('sat', 'unsat', 'unknown')]
    verdicts.append(v[0] if v else 'unknown')
  if 'sat' in verdicts:
    STATS.cross_disagree += 1
    return 'sat'
  if 'unsat' in verdicts:
    STATS.cross_agree += 1
    return 'unsat'
  return 'unknown'


# ---------------------------------------------------------------------------
# helpers


def _const_value(t):
  if isinstance(t, int):
    return t
  if z3.is_int_value(t):
    return t.as_long()
  if z3.is_bv_value(t):
    return t.as_long()
  return None


def _as_bool_term(c):
  if isinstance(c, SBool):
    return c.t
  if isinstance(c, bool):
    return z3.BoolVal(c)
  return c


def is_sym(x):
  return isinstance(x, (SInt, SBits, SReal, SBool, SBitLen))


def _norm_const(x):
  """Plain python value for gmpy numbers / bools."""
  if isinstance(x, bool):
    return int(x)
  if _MPZ and isinstance(x, _MPZ):
    return int(x)
  return x


def _wrap_int(t):
  t = z3.simplify(t)
  if z3.is_int_value(t):
    return t.as_long()
  return SInt(t)


def _wrap_real(t):
  t = z3.simplify(t)
  return SReal(t)


def _wrap_bool(t):
  t = z3.simplify(t)
  if z3.is_true(t):
    return True
  if z3.is_false(t):
    return False
  return SBool(t)


class SBool:
  __slots__ = ('t',)

  def __init__(self, t):
    self.t = t

  def __bool__(self):
    return eng().decide(self.t)

  def __and__(self, o):
    if isinstance(o, SBool):
      return _wrap_bool(z3.And(self.t, o.t))
    if isinstance(o, bool):
      return self if o else False
    if isinstance(o, (int, SInt)):
      return self.as_int() & o
    return NotImplemented

  __rand__ = __and__

  def __or__(self, o):
    if isinstance(o, SBool):
      return _wrap_bool(z3.Or(self.t, o.t))
    if isinstance(o, bool):
      return True if o else self
    if isinstance(o, (int, SInt)):
      return self.as_int() | o
    return NotImplemented

  __ror__ = __or__

  def __xor__(self, o):
    if isinstance(o, SBool):
      return _wrap_bool(z3.Xor(self.t, o.t))
    if isinstance(o, bool):
      return _wrap_bool(z3.Not(self.t)) if o else self
    return NotImplemented

  __rxor__ = __xor__

  def __invert__(self):
    return _wrap_bool(z3.Not(self.t))

  def __eq__(self, o):
    if isinstance(o, SBool):
      return _wrap_bool(self.t == o.t)
    if isinstance(o, bool):
      return self if o else _wrap_bool(z3.Not(self.t))
    if isinstance(o, (int, SInt)):
      return self.as_int() == o
    return False

  def __ne__(self, o):
    r = self.__eq__(o)
    if isinstance(r, SBool):
      return _wrap_bool(z3.Not(r.t))
    return not r

  __hash__ = lambda self: 0

  def as_int(self):
    return _wrap_int(z3.If(self.t, z3.IntVal(1), z3.IntVal(0)))

  def __int__(self):
    return 1 if bool(self) else 0

  def __index__(self):
    return 1 if bool(self) else 0

  def __add__(self, o):
    return self.as_int() + o

  __radd__ = __add__

  def __repr__(self):
    return 'SBool(%s)' % self.t


def sbool(x):
  """z3 term for a bool-like."""
  if isinstance(x, SBool):
    return x.t
  if isinstance(x, bool):
    return z3.BoolVal(x)
  if isinstance(x, z3.BoolRef):
    return x
  raise TypeError(x)


# ---------------------------------------------------------------------------
# integers (unbounded)


def _int_term(x):
  x = _norm_const(x)
  if isinstance(x, SInt):
    return x.t
  if isinstance(x, SBitLen):
    return None
  if isinstance(x, int):
    return z3.IntVal(x)
  if isinstance(x, SBool):
    return z3.If(x.t, z3.IntVal(1), z3.IntVal(0))
  return None


class SInt:
  """Python int semantics over a z3 Int term."""
  __slots__ = ('t',)

  def __init__(self, t):
    self.t = t

  # arithmetic
  def __add__(self, o):
    if isinstance(o, SReal) or isinstance(o, float):
      return SReal(z3.ToReal(self.t)) + o
    o = _conc_bitlen(o)
    ot = _int_term(o)
    if ot is None:
      return NotImplemented
    return _wrap_int(self.t + ot)

  __radd__ = __add__

  def __sub__(self, o):
    if isinstance(o, SReal) or isinstance(o, float):
      return SReal(z3.ToReal(self.t)) - o
    o = _conc_bitlen(o)
    ot = _int_term(o)
    if ot is None:
      return NotImplemented
    return _wrap_int(self.t - ot)

  def __rsub__(self, o):
    o = _conc_bitlen(o)
    ot = _int_term(o)
    if ot is None:
      return NotImplemented
    return _wrap_int(ot - self.t)

  def __mul__(self, o):
    if isinstance(o, SReal) or isinstance(o, float):
      return SReal(z3.ToReal(self.t)) * o
    o = _conc_bitlen(o)
    ot = _int_term(o)
    if ot is None:
      return NotImplemented
    return _wrap_int(self.t * ot)

  __rmul__ = __mul__

  def __neg__(self):
    return _wrap_int(-self.t)

  def __pos__(self):
    return self

  def __abs__(self):
    return _wrap_int(z3.If(self.t >= 0, self.t, -self.t))

  def __pow__(self, e, m=None):
    e = _norm_const(_conc_bitlen(e))
    if m is not None:
      return NotImplemented
    if isinstance(e, SInt):
      e = eng().concretize(e.t, 'exponent')
    if isinstance(e, float):
      raise PathAbort('inconclusive: float power of symbolic int')
    if not isinstance(e, int) or e < 0:
      return NotImplemented
    r = z3.IntVal(1)
    for _ in range(e):
      r = r * self.t
    return _wrap_int(r)

  def __rpow__(self, b):
    b = _norm_const(b)
    e = eng().concretize(self.t, 'exponent')
    return b**e

  def __floordiv__(self, o):
    return sdivmod(self, o)[0]

  def __rfloordiv__(self, o):
    return sdivmod(o, self)[0]

  def __mod__(self, o):
    if isinstance(o, FieldMod):
      return o.reduce(self)
    return sdivmod(self, o)[1]

  def __rmod__(self, o):
    return sdivmod(o, self)[1]

  def __divmod__(self, o):
    return sdivmod(self, o)

  def __rdivmod__(self, o):
    return sdivmod(o, self)

  def __truediv__(self, o):
    return SReal(z3.ToReal(self.t)) / o

  def __rtruediv__(self, o):
    return _to_sreal(o) / SReal(z3.ToReal(self.t))

  # comparisons
  def _cmp(self, o, op):
    if isinstance(o, SReal) or isinstance(o, float):
      return getattr(SReal(z3.ToReal(self.t)), op)(o)
    o = _conc_bitlen(o)
    ot = _int_term(o)
    if ot is None:
      return NotImplemented
    return _wrap_bool(getattr(self.t, op)(ot))

  def __lt__(self, o):
    return self._cmp(o, '__lt__')

  def __le__(self, o):
    return self._cmp(o, '__le__')

  def __gt__(self, o):
    return self._cmp(o, '__gt__')

  def __ge__(self, o):
    return self._cmp(o, '__ge__')

  def __eq__(self, o):
    if o is None:
      return False
    r = self._cmp(o, '__eq__')
    if r is NotImplemented:
      return False
    return r

  def __ne__(self, o):
    if o is None:
      return True
    r = self._cmp(o, '__ne__')
    if r is NotImplemented:
      return True
    return r

  __hash__ = lambda self: 0

  def __bool__(self):
    return eng().decide(self.t != 0)

  def __index__(self):
    e = eng()
    fmt = e.notes.get('format_placeholder_in')
    if fmt:
      import sys  # pylint: disable=g-import-not-at-top
      f = sys._getframe(1)
      if f.f_code.co_name in fmt:
        # '%x' % value inside a function whose text output is not part of the
        # claim: the rendered text is a placeholder
        e.notes['format_placeholder_used'] = True
        e.notes.setdefault('format_args', []).append(self.t)
        # rendered as FORMAT_BASE + 1-based position in format_args
        return FORMAT_BASE + len(e.notes['format_args'])
    return e.concretize(self.t, 'index')

  def __int__(self):
    e = eng()
    fmt = e.notes.get('format_placeholder_in')
    if fmt:
      import sys  # pylint: disable=g-import-not-at-top
      if sys._getframe(1).f_code.co_name in fmt:
        e.notes['format_placeholder_used'] = True
        e.notes.setdefault('format_args', []).append(self.t)
        return FORMAT_BASE + len(e.notes['format_args'])
    return e.concretize(self.t, 'int()')

  def bit_length(self):
    return SBitLen(self)

  # bit operations that have an arithmetic meaning
  def __lshift__(self, k):
    k = _norm_const(_conc_bitlen(k))
    if isinstance(k, SInt):
      k = eng().concretize(k.t, 'shift')
    return _wrap_int(self.t * (1 << k))

  def __rlshift__(self, b):
    k = eng().concretize(self.t, 'shift')
    return b << k

  def __rshift__(self, k):
    k = _norm_const(_conc_bitlen(k))
    if isinstance(k, SInt):
      k = eng().concretize(k.t, 'shift')
    return self // (1 << k)

  def __rrshift__(self, b):
    k = eng().concretize(self.t, 'shift')
    return b >> k

  def __and__(self, o):
    o = _norm_const(_conc_bitlen(o))
    if isinstance(o, int) and o >= 0 and (o & (o + 1)) == 0:
      return self % (o + 1)
    if isinstance(o, int) and o > 0 and (o & (o - 1)) == 0:
      # single bit
      return ((self // o) % 2) * o
    return _bitop_uf('and', self, o)

  __rand__ = __and__

  def __or__(self, o):
    return _bitop_uf('or', self, _norm_const(_conc_bitlen(o)))

  __ror__ = __or__

  def __xor__(self, o):
    return _bitop_uf('xor', self, _norm_const(_conc_bitlen(o)))

  __rxor__ = __xor__

  def to_bytes(self, length, byteorder='big', *, signed=False):
    """int.to_bytes on a symbolic value: list of byte terms."""
    from harness import symbytes  # pylint: disable=g-import-not-at-top
    return symbytes.int_to_bytes(self, length, byteorder, signed)

  def __repr__(self):
    return 'SInt(%s)' % self.t

  def __format__(self, spec):
    v = eng().concretize(self.t, 'format')
    return format(v, spec)

  def __str__(self):
    return repr(self)


class SBitLen:
  """Lazy bit_length(): comparisons with constants stay symbolic."""
  __slots__ = ('x', '_v')

  def __init__(self, x):
    self.x = x
    self._v = None

  def value(self):
    if self._v is not None:
      return self._v
    e = eng()
    x = self.x
    if isinstance(x, SInt):
      ax = z3.If(x.t >= 0, x.t, -x.t)
      for _ in range(100000):
        r, m = e._check()
        if r == 'unsat':
          raise PathAbort('infeasible')
        if r != 'sat':
          raise PathAbort('inconclusive: bit_length')
        e.model = m
        v = m.eval(ax, model_completion=True).as_long()
        L = v.bit_length()
        if L == 0:
          c = ax == 0
        else:
          c = z3.And(ax >= (1 << (L - 1)), ax < (1 << L))
        if e.decide(c):
          self._v = L
          return L
      raise PathAbort('bound-hit: bit_length')
    raise TypeError(x)

  def _lt_const(self, c):
    # bit_length(x) < c  <=>  |x| < 2^(c-1)   (c >= 1);  c <= 0: False
    x = self.x
    if c <= 0:
      return False
    ax = z3.If(x.t >= 0, x.t, -x.t)
    return _wrap_bool(ax < (1 << (c - 1)))

  def __lt__(self, c):
    c = _norm_const(c)
    if self._v is None and isinstance(c, int):
      return self._lt_const(c)
    return self.value() < c

  def __ge__(self, c):
    c = _norm_const(c)
    if self._v is None and isinstance(c, int):
      r = self._lt_const(c)
      return (not r) if isinstance(r, bool) else ~r
    return self.value() >= c

  def __le__(self, c):
    c = _norm_const(c)
    if self._v is None and isinstance(c, int):
      return self._lt_const(c + 1)
    return self.value() <= c

  def __gt__(self, c):
    c = _norm_const(c)
    if self._v is None and isinstance(c, int):
      r = self._lt_const(c + 1)
      return (not r) if isinstance(r, bool) else ~r
    return self.value() > c

  def _eq_const(self, c):
    # bit_length(x) == c  <=>  2^(c-1) <= |x| < 2^c  (c >= 1); c == 0: x == 0
    x = self.x
    if c < 0:
      return False
    ax = z3.If(x.t >= 0, x.t, -x.t)
    if c == 0:
      return _wrap_bool(ax == 0)
    return _wrap_bool(z3.And(ax >= (1 << (c - 1)), ax < (1 << c)))

  def __eq__(self, c):
    c = _norm_const(c)
    if self._v is None and isinstance(c, int) and not isinstance(c, bool) \
        and isinstance(self.x, SInt):
      return self._eq_const(c)
    return self.value() == c

  def __ne__(self, c):
    c = _norm_const(c)
    if self._v is None and isinstance(c, int) and not isinstance(c, bool) \
        and isinstance(self.x, SInt):
      r = self._eq_const(c)
      return (not r) if isinstance(r, bool) else ~r
    return self.value() != c

  __hash__ = lambda self: 0

  def __index__(self):
    return self.value()

  def __int__(self):
    return self.value()

  def __add__(self, o):
    return self.value() + o

  __radd__ = __add__

  def __sub__(self, o):
    return self.value() - o

  def __rsub__(self, o):
    return o - self.value()

  def __mul__(self, o):
    return self.value() * o

  __rmul__ = __mul__

  def __floordiv__(self, o):
    return self.value() // o

  def __rfloordiv__(self, o):
    return o // self.value()

  def __mod__(self, o):
    return self.value() % o

  def __rpow__(self, b):
    return b**self.value()

  def __neg__(self):
    return -self.value()

  def __repr__(self):
    return 'SBitLen(%r)' % (self.x,)


BITOP_WIDTHS = (8, 16, 32, 48, 64, 128, 160, 256)
_BITOPS = {}


def _bitop_uf(name, a, b):
  """Bitwise and/or/xor on unbounded ints: uninterpreted function with range
  axioms instantiated per call (non-negativity, closure under 2^k bounds)."""
  at, bt = _int_term(a), _int_term(b)
  if at is None or bt is None:
    return NotImplemented
  f = _BITOPS.get(name)
  if f is None:
    f = z3.Function('bit' + name, z3.IntSort(), z3.IntSort(), z3.IntSort())
    _BITOPS[name] = f
  e = eng()
  r = f(at, bt)
  key = ('bitop', name, at.get_id(), bt.get_id())
  if key not in e.memo:
    e.memo[key] = (r, at, bt)
    ax = [z3.Implies(z3.And(at >= 0, bt >= 0), r >= 0), f(at, bt) == f(bt, at)]
    if name == 'and':
      ax.append(z3.Implies(z3.And(at >= 0, bt >= 0),
                           z3.And(r <= at, r <= bt)))
    for k in BITOP_WIDTHS:
      lim = 1 << k
      ax.append(z3.Implies(z3.And(at >= 0, bt >= 0, at < lim, bt < lim),
                           r < lim))
    e.assume(z3.And(*ax))
    e.notes.setdefault('bitops', set()).add(name)
  return _wrap_int(r)


def _conc_bitlen(o):
  if isinstance(o, SBitLen):
    return o.value()
  return o


def sdivmod(a, m):
  """Python floor divmod on (possibly) symbolic unbounded ints."""
  a = _norm_const(_conc_bitlen(a))
  m = _norm_const(_conc_bitlen(m))
  if isinstance(a, SBits) or isinstance(m, SBits):
    return _bits_divmod(a, m)
  if isinstance(a, int) and isinstance(m, int):
    return divmod(a, m)
  if isinstance(a, SReal) or isinstance(m, SReal):
    raise PathAbort('inconclusive: divmod on reals')
  at = _int_term(a)
  if at is None:
    raise TypeError('divmod of %r' % (a,))
  if isinstance(m, int):
    if m == 0:
      raise ZeroDivisionError('integer division or modulo by zero')
    if m > 0:
      hv = eng().notes.get('havoc_mod') if CUR is not None else None
      if hv and m >= hv and not z3.is_int_value(at) and not (
          z3.is_const(at) and at.decl().kind() == z3.Z3_OP_UNINTERPRETED):
        # range-only abstraction: a % m is SOME value in [0, m) (memoised)
        e = eng()
        key = ('havocmod', at.get_id(), m)
        hit = e.memo.get(key)
        if hit is None:
          r = e.fresh('hmod')
          e.assume(z3.And(r >= 0, r < m))
          hit = (r, at)
          e.memo[key] = hit
        return _wrap_int(at / m), _wrap_int(hit[0])
      return _wrap_int(at / m), _wrap_int(at % m)
    # negative constant: a = q*m + r, m < r <= 0 ; q = floor(a/m)
    # floor(a/m) = floor((-a)/(-m))
    q = (-at) / (-m)
    r = -((-at) % (-m))
    return _wrap_int(q), _wrap_int(r)
  mt = _int_term(m)
  if mt is None:
    raise TypeError('divmod by %r' % (m,))
  e = eng()
  if e.decide(mt == 0):
    raise ZeroDivisionError('integer division or modulo by zero')
  fact = e.memo.get(('exactdiv', at.get_id(), mt.get_id()))
  if fact is not None:
    # a == m * cofactor is a path fact (gcd contract): exact division
    return _wrap_int(fact[0]), 0
  key = ('divmod', at.get_id(), mt.get_id())
  hit = e.memo.get(key)
  if hit is None:
    q = e.fresh('q')
    r = at - q * mt
    e.define(
        z3.If(mt > 0, z3.And(r >= 0, r < mt), z3.And(r <= 0, r > mt)))
    hit = (q, r, at, mt)
    e.memo[key] = hit
  return _wrap_int(hit[0]), _wrap_int(hit[1])


# ---------------------------------------------------------------------------
# reals (gmpy.mpq, abstract field elements)


def _to_sreal(x):
  x = _norm_const(x)
  if isinstance(x, SReal):
    return x
  if isinstance(x, SInt):
    return SReal(z3.ToReal(x.t))
  if isinstance(x, int):
    return SReal(z3.RealVal(x))
  if _MPQ and isinstance(x, _MPQ):
    return SReal(z3.Q(int(x.numerator), int(x.denominator)))
  if isinstance(x, float):
    # exact: a python float is a binary rational
    import fractions  # pylint: disable=g-import-not-at-top
    f = fractions.Fraction(x)
    return SReal(z3.Q(f.numerator, f.denominator))
  return None


class SReal:
  __slots__ = ('t',)

  def __init__(self, t):
    self.t = t

  def _bin(self, o, f):
    o = _to_sreal(o)
    if o is None:
      return NotImplemented
    return _wrap_real(f(self.t, o.t))

  def __add__(self, o):
    return self._bin(o, lambda a, b: a + b)

  __radd__ = __add__

  def __sub__(self, o):
    return self._bin(o, lambda a, b: a - b)

  def __rsub__(self, o):
    return self._bin(o, lambda a, b: b - a)

  def __mul__(self, o):
    return self._bin(o, lambda a, b: a * b)

  __rmul__ = __mul__

  def __truediv__(self, o):
    o = _to_sreal(o)
    if o is None:
      return NotImplemented
    if eng().decide(o.t == 0):
      raise ZeroDivisionError('division by zero')
    return _wrap_real(self.t / o.t)

  def __rtruediv__(self, o):
    o = _to_sreal(o)
    if o is None:
      return NotImplemented
    return o.__truediv__(self)

  # field abstraction: "//" on abstract field elements is the exact division
  # (harnesses that rely on it state "integer divisions are exact" as an
  # assumption)
  def __floordiv__(self, o):
    return self.__truediv__(o)

  def __neg__(self):
    return _wrap_real(-self.t)

  def __pos__(self):
    return self

  def __abs__(self):
    return _wrap_real(z3.If(self.t >= 0, self.t, -self.t))

  def __pow__(self, e):
    if not isinstance(e, int) or e < 0:
      return NotImplemented
    r = z3.RealVal(1)
    for _ in range(e):
      r = r * self.t
    return _wrap_real(r)

  def __mod__(self, o):
    if isinstance(o, FieldMod):
      return o.reduce(self)
    raise PathAbort('inconclusive: % on symbolic real')

  def _cmp(self, o, op):
    o = _to_sreal(o)
    if o is None:
      return NotImplemented
    return _wrap_bool(getattr(self.t, op)(o.t))

  def __lt__(self, o):
    return self._cmp(o, '__lt__')

  def __le__(self, o):
    return self._cmp(o, '__le__')

  def __gt__(self, o):
    return self._cmp(o, '__gt__')

  def __ge__(self, o):
    return self._cmp(o, '__ge__')

  def __eq__(self, o):
    if o is None:
      return False
    r = self._cmp(o, '__eq__')
    return False if r is NotImplemented else r

  def __ne__(self, o):
    if o is None:
      return True
    r = self._cmp(o, '__ne__')
    return True if r is NotImplemented else r

  __hash__ = lambda self: 0

  def __bool__(self):
    return eng().decide(self.t != 0)

  def __repr__(self):
    return 'SReal(%s)' % self.t


class FieldMod:
  """Stands for the modulus of an abstract field: x % mod is the identity."""

  def __init__(self, bits=256):
    self.bits = bits

  def reduce(self, x):
    return x

  def bit_length(self):
    return self.bits

  def __rmod__(self, x):
    return x

  __hash__ = lambda self: 1


# ---------------------------------------------------------------------------
# fixed-width integers for bit-level code


def _fits(v, w):
  return -(1 << (w - 1)) <= v < (1 << (w - 1))


class SBits:
  """Python int semantics on a signed bit-vector of fixed width.

  The width is chosen by the harness so that no intermediate wraps; every
  arithmetic operation records a no-overflow side condition in
  eng().notes['overflow'] which the harness discharges at the end of the path.
  """
  __slots__ = ('t',)

  def __init__(self, t):
    self.t = t

  @property
  def w(self):
    return self.t.size()

  def _other(self, o):
    o = _norm_const(_conc_bitlen(o))
    if isinstance(o, SBits):
      if o.w != self.w:
        raise PathAbort('inconclusive: width mismatch')
      return o.t
    if isinstance(o, int):
      if not _fits(o, self.w):
        raise PathAbort('inconclusive: constant %d does not fit width %d' %
                        (o, self.w))
      return z3.BitVecVal(o, self.w)
    if isinstance(o, SBool):
      return z3.If(o.t, z3.BitVecVal(1, self.w), z3.BitVecVal(0, self.w))
    return None

  @staticmethod
  def _ovf(c):
    c = z3.simplify(c)
    if z3.is_true(c):
      return
    eng().notes.setdefault('overflow', []).append(c)

  def __add__(self, o):
    ot = self._other(o)
    if ot is None:
      return NotImplemented
    self._ovf(z3.And(z3.BVAddNoOverflow(self.t, ot, True),
                     z3.BVAddNoUnderflow(self.t, ot)))
    return _wrap_bits(self.t + ot)

  __radd__ = __add__

  def __sub__(self, o):
    ot = self._other(o)
    if ot is None:
      return NotImplemented
    self._ovf(z3.And(z3.BVSubNoOverflow(self.t, ot),
                     z3.BVSubNoUnderflow(self.t, ot, True)))
    return _wrap_bits(self.t - ot)

  def __rsub__(self, o):
    ot = self._other(o)
    if ot is None:
      return NotImplemented
    self._ovf(z3.And(z3.BVSubNoOverflow(ot, self.t),
                     z3.BVSubNoUnderflow(ot, self.t, True)))
    return _wrap_bits(ot - self.t)

  def __mul__(self, o):
    ot = self._other(o)
    if ot is None:
      return NotImplemented
    self._ovf(z3.And(z3.BVMulNoOverflow(self.t, ot, True),
                     z3.BVMulNoUnderflow(self.t, ot)))
    return _wrap_bits(self.t * ot)

  __rmul__ = __mul__

  def __neg__(self):
    self._ovf(self.t != z3.BitVecVal(1 << (self.w - 1), self.w))
    return _wrap_bits(-self.t)

  def __pos__(self):
    return self

  def __abs__(self):
    return _wrap_bits(z3.If(self.t >= 0, self.t, -self.t))

  def __pow__(self, e, m=None):
    e = _norm_const(e)
    if m is not None or not isinstance(e, int) or e < 0:
      return NotImplemented
    r = 1
    for _ in range(e):
      r = self * r
    return r

  def __rpow__(self, b):
    e = eng().concretize(self.t, 'exponent')
    return b**e

  def __and__(self, o):
    ot = self._other(o)
    if ot is None:
      return NotImplemented
    return _wrap_bits(self.t & ot)

  __rand__ = __and__

  def __or__(self, o):
    ot = self._other(o)
    if ot is None:
      return NotImplemented
    return _wrap_bits(self.t | ot)

  __ror__ = __or__

  def __xor__(self, o):
    ot = self._other(o)
    if ot is None:
      return NotImplemented
    return _wrap_bits(self.t ^ ot)

  __rxor__ = __xor__

  def __invert__(self):
    return _wrap_bits(~self.t)

  def __lshift__(self, k):
    k = _norm_const(_conc_bitlen(k))
    if isinstance(k, SBits):
      k = eng().concretize(k.t, 'shift')
    if k < 0:
      raise ValueError('negative shift count')
    if k >= self.w:
      self._ovf(self.t == 0)
      return _wrap_bits(z3.BitVecVal(0, self.w))
    # no overflow: the top k+1 bits are all equal
    top = z3.Extract(self.w - 1, self.w - 1 - k, self.t)
    self._ovf(z3.Or(top == 0, top == z3.BitVecVal(-1, k + 1)))
    return _wrap_bits(self.t << k)

  def __rlshift__(self, b):
    k = eng().concretize(self.t, 'shift')
    return b << k

  def __rshift__(self, k):
    k = _norm_const(_conc_bitlen(k))
    if isinstance(k, SBits):
      k = eng().concretize(k.t, 'shift')
    if k < 0:
      raise ValueError('negative shift count')
    if k >= self.w:
      k = self.w - 1
    return _wrap_bits(self.t >> k)

  def __rrshift__(self, b):
    k = eng().concretize(self.t, 'shift')
    return b >> k

  def __floordiv__(self, o):
    return _bits_divmod(self, o)[0]

  def __rfloordiv__(self, o):
    return _bits_divmod(o, self)[0]

  def __mod__(self, o):
    return _bits_divmod(self, o)[1]

  def __rmod__(self, o):
    return _bits_divmod(o, self)[1]

  def __divmod__(self, o):
    return _bits_divmod(self, o)

  def __rdivmod__(self, o):
    return _bits_divmod(o, self)

  def _cmp(self, o, f):
    ot = self._other(o)
    if ot is None:
      return NotImplemented
    return _wrap_bool(f(self.t, ot))

  def __lt__(self, o):
    return self._cmp(o, lambda a, b: a < b)

  def __le__(self, o):
    return self._cmp(o, lambda a, b: a <= b)

  def __gt__(self, o):
    return self._cmp(o, lambda a, b: a > b)

  def __ge__(self, o):
    return self._cmp(o, lambda a, b: a >= b)

  def __eq__(self, o):
    if o is None:
      return False
    r = self._cmp(o, lambda a, b: a == b)
    return False if r is NotImplemented else r

  def __ne__(self, o):
    if o is None:
      return True
    r = self._cmp(o, lambda a, b: a != b)
    return True if r is NotImplemented else r

  __hash__ = lambda self: 0

  def __bool__(self):
    return eng().decide(self.t != 0)

  def __index__(self):
    v = eng().concretize(self.t, 'index')
    if v >= 1 << (self.w - 1):
      v -= 1 << self.w
    return v

  def __int__(self):
    return self.__index__()

  def bit_length(self):
    e = eng()
    ax = z3.If(self.t >= 0, self.t, -self.t)
    for _ in range(100000):
      r, m = e._check()
      if r == 'unsat':
        raise PathAbort('infeasible')
      if r != 'sat':
        raise PathAbort('inconclusive: bit_length')
      e.model = m
      v = m.eval(ax, model_completion=True).as_long()
      L = v.bit_length()
      if L == 0:
        c = ax == 0
      else:
        c = z3.And(z3.UGE(ax, 1 << (L - 1)),
                   z3.ULT(ax, 1 << L) if L < self.w else z3.BoolVal(True))
      if e.decide(c):
        return L
    raise PathAbort('bound-hit: bit_length')

  def __format__(self, spec):
    return format(self.__index__(), spec)

  def to_bytes(self, length, byteorder='big', *, signed=False):
    from harness import symbytes  # pylint: disable=g-import-not-at-top
    return symbytes.int_to_bytes(self, length, byteorder, signed)

  def __repr__(self):
    return 'SBits(%s)' % self.t


def _wrap_bits(t):
  t = z3.simplify(t)
  if z3.is_bv_value(t):
    v = t.as_long()
    if v >= 1 << (t.size() - 1):
      v -= 1 << t.size()
    return v
  return SBits(t)


def _bits_divmod(a, m):
  a = _norm_const(a)
  m = _norm_const(m)
  if isinstance(a, SBits):
    w = a.w
  else:
    w = m.w
  A = a.t if isinstance(a, SBits) else z3.BitVecVal(a, w)
  if isinstance(m, int):
    if m == 0:
      raise ZeroDivisionError('integer division or modulo by zero')
    if not _fits(m, w):
      raise PathAbort('inconclusive: modulus does not fit width')
    if m > 0 and (m & (m - 1)) == 0:
      k = m.bit_length() - 1
      if k == 0:
        return _wrap_bits(A), 0
      r = z3.ZeroExt(w - k, z3.Extract(k - 1, 0, A))
      q = A >> k
      return _wrap_bits(q), _wrap_bits(r)
    M = z3.BitVecVal(m, w)
  else:
    M = m.t
    if eng().decide(M == 0):
      raise ZeroDivisionError('integer division or modulo by zero')
  # floor semantics
  q0 = A / M  # signed, truncating
  r0 = z3.SRem(A, M)
  adj = z3.And(r0 != 0, (r0 < 0) != (M < 0))
  q = z3.If(adj, q0 - 1, q0)
  r = z3.If(adj, r0 + M, r0)
  return _wrap_bits(q), _wrap_bits(r)


# ---------------------------------------------------------------------------
# exploration


class Path:

  def __init__(self, engine, kind, value, index):
    self.eng = engine
    self.kind = kind  # 'return' | 'raise' | 'abort'
    self.value = value
    self.index = index

  def __repr__(self):
    return 'Path(%d,%s,%r)' % (self.index, self.kind, self.value)


def explore(run, max_paths=100000, feas_timeout_ms=2000, max_decisions=20000,
            deadline=None):
  """Generator over all paths of run(engine).

  run(engine) creates its symbolic inputs (deterministically!), calls the
  function under analysis and returns its result.  The Engine of the path is
  active (pysym.CUR) while the consumer handles the yielded Path.
  """
  global CUR
  stack = [([], False)]
  count = 0
  while stack:
    prefix, maybe = stack.pop()
    if count >= max_paths:
      raise PathAbort('bound-hit: path budget %d exhausted' % max_paths)
    if deadline is not None and time.time() > deadline:
      raise PathAbort('inconclusive: time budget exhausted')
    e = Engine(prefix, feas_timeout_ms, max_decisions)
    e.maybe_infeasible = maybe
    CUR = e
    try:
      try:
        out = run(e)
        p = Path(e, 'return', out, count)
      except PathAbort as a:
        p = Path(e, 'abort', a.reason, count)
      except Exception as ex:  # pylint: disable=broad-except
        p = Path(e, 'raise', ex, count)
      # children in reverse so that the earliest alternate is explored first
      for alt in reversed(e.alternates):
        stack.append(alt)
      e.alternates = []
      count += 1
      if p.kind == 'abort' and p.value == 'infeasible':
        continue
      yield p
    finally:
      CUR = None


FORMAT_BASE = 7 * 16**15  # rendering of a symbolic %x / %d argument


def format_arg(e, v):
  """Term of a number parsed from a text rendered with placeholders: either
  a symbolic format argument (FORMAT_BASE + position) or a literal."""
  fa = e.notes.get('format_args', [])
  if FORMAT_BASE < abs(v) <= FORMAT_BASE + len(fa):
    t = fa[abs(v) - FORMAT_BASE - 1]
    return -t if v < 0 else t
  return z3.IntVal(v)


def model_int(m, t):
  v = m.eval(t, model_completion=True)
  if z3.is_int_value(v):
    return v.as_long()
  if z3.is_bv_value(v):
    return v.as_long()
  if z3.is_rational_value(v):
    return (v.numerator_as_long(), v.denominator_as_long())
  if z3.is_true(v):
    return True
  if z3.is_false(v):
    return False
  raise ValueError('no value for %s: %s' % (t, v))


def term_of(x):
  if is_sym(x) and not isinstance(x, SBitLen):
    return x.t
  return x


def model_value(m, x):
  """Concrete python value of a (possibly nested) result under model m."""
  x = _norm_const(x)
  if isinstance(x, (SInt, SReal, SBool)):
    return model_int(m, x.t)
  if isinstance(x, SBits):
    v = model_int(m, x.t)
    if v >= 1 << (x.w - 1):
      v -= 1 << x.w
    return v
  if isinstance(x, (list, tuple)):
    return type(x)(model_value(m, y) for y in x)
  if isinstance(x, dict):
    return {model_value(m, k): model_value(m, v) for k, v in x.items()}
  return x
