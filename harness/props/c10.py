"""C10 - small and structured discrete logarithms are always found.

The search code (PointTable, BatchDL, ExtendedBatchDL, BatchDLOfDifferences)
is the real code; it runs on a cyclic-group model of the curve in which the
point e*G is the pair (min(e, q-e), sign) and only the group-law primitives
are replaced by their docstring contracts (their conformance is C11).
"""
import itertools

import z3

from harness import common
from harness import pb2shim
from harness import pysym
from harness import stubs
from harness.common import T, ivar, inputs_of
from harness.pysym import SInt
from harness.runner import Job

OUTSIDE = [
    'bounds above the stated ones and lists longer than 3 (the table size '
    'grows with their product)',
    'float rounding of math.sqrt for huge arguments',
    'the group-law primitives themselves (C11); the baby-step giant-step '
    'search of ExtendedBatchDL at 2^32 (BatchDL is replaced by its contract '
    'there, which the BatchDL jobs establish for small bounds)',
]
ASSUMPTIONS = [
    'cyclic-group model: Add, Negate, Subtract, Multiply, PointSequence, '
    'BatchAddX behave as the group law on exponents modulo a prime q',
]


def _mods():
  pb = common.lib(fakes=True)
  pb2shim.use_fakes(True)
  from paranoid_crypto.lib import ec_util  # pylint: disable=g-import-not-at-top
  return pb, ec_util


MOD = 1000003  # field "prime" of the model (only -y % mod is used)


def make_model(ec_util, q):
  INF = ec_util.INFINITY
  half = (q - 1) // 2

  def enc(E):
    """exponent (int or SInt) -> model point."""
    E = E % q
    if isinstance(E, int):
      if E == 0:
        return INF
      return (E, 1) if E <= half else (q - E, MOD - 1)
    e = pysym.eng()
    if e.decide(E.t == 0):
      return INF
    pos = E.t <= half
    x = z3.If(pos, E.t, q - E.t)
    y = z3.If(pos, z3.IntVal(1), z3.IntVal(MOD - 1))
    return (pysym._wrap_int(x), pysym._wrap_int(y))

  def dec(P):
    """model point -> exponent in [0, q)."""
    if P == INF:
      return 0
    x, y = P
    if isinstance(x, int) and isinstance(y, int):
      return x if y == 1 else q - x
    yt = T(y)
    return pysym._wrap_int(z3.If(yt == 1, T(x), q - T(x)))

  class ModelCurve(ec_util.EcCurve):

    def __init__(self):
      self.a = self.b = 0
      self.mod = MOD
      self.n = q
      self.h = 1
      self.name = 'cyclic%d' % q
      self.g = (1, 1)
      self._cache = {}
      self._table = {}
      self._table_size = 0

    # group-law primitives by contract
    def Negate(self, p):
      if p == INF:
        return p
      return enc(-dec(p))

    def Add(self, p, r):
      return enc(dec(p) + dec(r))

    def Subtract(self, p, r):
      return enc(dec(p) - dec(r))

    def Double(self, p):
      return enc(2 * dec(p))

    def Multiply(self, p, k):
      return enc(dec(p) * k)

    def PointSequence(self, base, n):
      b = dec(base)
      return [enc(b * i) for i in range(n)]

    def BatchAddX(self, p, points):
      return [self.Add(p, r)[0] for r in points]

    def BatchMultiplyG(self, scalars):
      return [enc(s) for s in scalars]

  ModelCurve.enc = staticmethod(enc)
  ModelCurve.dec = staticmethod(dec)
  return ModelCurve


class SymTable(dict):
  """The dict returned by PointTable, usable with symbolic keys."""

  def _find(self, k):
    for key in self.keys():
      if key is None:
        continue
      if k == key:  # forks
        return key
    return None

  def __contains__(self, k):
    if not pysym.is_sym(k):
      return dict.__contains__(self, k)
    return self._find(k) is not None

  def __getitem__(self, k):
    if not pysym.is_sym(k):
      return dict.__getitem__(self, k)
    key = self._find(k)
    if key is None:
      raise KeyError(k)
    return dict.__getitem__(self, key)

  def get(self, k, default=None):
    if not pysym.is_sym(k):
      return dict.get(self, k, default)
    key = self._find(k)
    return default if key is None else dict.__getitem__(self, key)


def _wrap_table(curve):
  if not isinstance(curve._table, SymTable):
    curve._table = SymTable(curve._table)


def batch_dl(rec, seed, q, n, L, history):
  """history: list of ('dl', n', L') / ('diff', max_diff) earlier calls."""
  pb, ec_util = _mods()
  Model = make_model(ec_util, q)
  rec.functions('paranoid_crypto.lib.ec_util:EcCurve.BatchDL',
                'paranoid_crypto.lib.ec_util:EcCurve.PointTable')
  rec.bounds('cyclic group of prime order %d; bound n = %d; %d target '
             'point(s) e_i*G with 0 <= e_i < n symbolic; earlier calls on the '
             'same curve object: %r' % (q, n, L, history))
  cexs = []
  done = 0

  def run(e):
    c = Model()
    # earlier work (concrete), leaves a cached table
    for h in history:
      if h[0] == 'dl':
        c.BatchDL([Model.enc(3 + i) for i in range(h[2])], h[1])
      else:
        c.BatchDLOfDifferences([Model.enc(5), Model.enc(5 + 2 * h[1] + 1)],
                               max_diff=h[1])
    es = [ivar(e, 'e%d' % i, lo=0, hi=n) for i in range(L)]
    pts = [Model.enc(x) for x in es]
    e.notes.update(es=es)
    orig_pt = c.PointTable

    def pt(base, size):
      return SymTable(orig_pt(base, size))

    c.PointTable = pt
    _wrap_table(c)
    return c.BatchDL(pts, n)

  for p in pysym.explore(run, max_paths=20000):
    e = p.eng
    rec.path(p.kind)
    if p.kind == 'abort':
      rec.inconclusive('path aborted: %s' % p.value)
      continue
    if p.kind == 'raise':
      r, m = e.feasible()
      if r == 'sat':
        cexs.append(('raises %r' % (p.value,), inputs_of(e, m)))
      continue
    es = e.notes['es']
    res = p.value
    goal = z3.BoolVal(len(res) == L)
    for x, r_ in zip(es, res):
      goal = z3.And(goal, z3.BoolVal(r_ is not None) if r_ is None else
                    T(r_) == x.t)
    r, m, _ = e.prove(goal)
    if r == 'proved':
      rec.obligation('proved')
    elif r == 'unknown':
      rec.obligation('unknown', 'BatchDL')
    else:
      cexs.append(('missed', inputs_of(e, m)))
    done += 1
  rec.sample(dict(q=q, n=n, L=L, history=history, paths=done))
  rec.reach(1, 1 if done else 0)
  seen = set()
  for tag, cex in cexs:
    if tag.split(' ')[0] in seen:
      continue
    seen.add(tag.split(' ')[0])
    es = [cex['e%d' % i] for i in range(L)]
    bad, detail = replay_dl(es, n, history)
    rec.replayed()
    rec.violation('ec_util.EcCurve.BatchDL', tag.split(' ')[0], detail,
                  dict(exponents=es, n=n, history=history),
                  dict(module='harness.props.c10', function='replay_dl_cmd',
                       args=dict(es=es, n=n, history=history)), bad)


def replay_dl(es, n, history):
  """Real secp256r1 (real point arithmetic), same call history."""
  pb, ec_util = _mods()
  pb2shim.use_fakes(False)
  c0 = ec_util.CURVE_FACTORY[2]
  c = ec_util.EcCurve('replay', int(c0.a), int(c0.b), int(c0.mod),
                      int(c0.g[0]), int(c0.g[1]), int(c0.n))
  try:
    for h in history:
      if h[0] == 'dl':
        c.BatchDL([c.Multiply(c.g, 3 + i) for i in range(h[2])], h[1])
      else:
        c.BatchDLOfDifferences([c.Multiply(c.g, 5), c.Multiply(
            c.g, 5 + 2 * h[1] + 1)], max_diff=h[1])
    pts = [c.Multiply(c.g, int(x)) for x in es]
    got = c.BatchDL(pts, int(n))
  except Exception as ex:  # pylint: disable=broad-except
    return True, 'raised %r' % (ex,)
  got = [None if g is None else int(g) for g in got]
  return got != [int(x) for x in es], 'BatchDL -> %r, expected %r' % (
      got, [int(x) for x in es])


def replay_dl_cmd(es, n, history):
  bad, detail = replay_dl(es, n, [tuple(h) for h in history])
  print(detail)
  return bad


def differences(rec, seed, q, max_diff, L, with_history_list,
                aspects=('complete', 'relation')):
  pb, ec_util = _mods()
  Model = make_model(ec_util, q)
  rec.functions('paranoid_crypto.lib.ec_util:EcCurve.BatchDLOfDifferences')
  rec.bounds('cyclic group of prime order %d; max_diff = %d; %d keys with '
             'symbolic private keys in [1, 6*max_diff)%s' %
             (q, max_diff, L, ' + one key in the history list'
              if with_history_list else ''))
  cexs = []
  done = 0
  hi = 6 * max_diff

  def run(e):
    c = Model()
    ds = [ivar(e, 'd%d' % i, lo=1, hi=hi) for i in range(L)]
    pts = [Model.enc(x) for x in ds]
    other = None
    if with_history_list:
      dh = ivar(e, 'dh', lo=1, hi=hi)
      other = [Model.enc(dh)]
      ds_all = ds + [dh]
    else:
      ds_all = list(ds)
    e.notes.update(ds=ds, ds_all=ds_all)
    e.notes['format_placeholder_in'] = {'BatchDLOfDifferences'}
    orig_pt = c.PointTable
    c.PointTable = lambda base, size: SymTable(orig_pt(base, size))
    _wrap_table(c)
    return c.BatchDLOfDifferences(pts, other, max_diff)

  for p in pysym.explore(run, max_paths=30000):
    e = p.eng
    rec.path(p.kind)
    if p.kind == 'abort':
      rec.inconclusive('path aborted: %s' % p.value)
      continue
    if p.kind == 'raise':
      r, m = e.feasible()
      if r == 'sat':
        cexs.append(('raises %r' % (p.value,), inputs_of(e, m)))
      continue
    ds, ds_all = e.notes['ds'], e.notes['ds_all']
    res = p.value
    goals = [z3.BoolVal(len(res) == L)]
    rgoals = []
    for i in range(min(L, len(res))):
      close = z3.Or([z3.And(ds[i].t != o.t, ds[i].t - o.t < max_diff,
                            o.t - ds[i].t < max_diff)
                     for j, o in enumerate(ds_all) if j != i]) if len(
                         ds_all) > 1 else z3.BoolVal(False)
      flagged = z3.BoolVal(res[i] is not None)
      # completeness: close keys are flagged; identical keys alone are not.
      # (The table built by PointTable may hold a few entries beyond
      # max_diff, so a difference slightly above the bound can be reported
      # too - a true relation, which C02 covers.)
      loose = z3.Or([z3.And(ds[i].t != o.t, ds[i].t - o.t <= 2 * max_diff + 2,
                            o.t - ds[i].t <= 2 * max_diff + 2)
                     for j, o in enumerate(ds_all) if j != i]) if len(
                         ds_all) > 1 else z3.BoolVal(False)
      goals.append(z3.Implies(close, flagged))
      goals.append(z3.Implies(flagged, loose))
      if res[i] is not None:
        # the recorded relation "key - (x, y) = k * G" is true for key i and
        # (x, y) is another artifact (C02); the text is captured through its
        # format arguments, rendered as their positions
        import re  # pylint: disable=g-import-not-at-top
        fa = e.notes.get('format_args', [])
        mt = re.match(r'key - \(([0-9a-f]+), ([0-9a-f]+)\) = (-?\d+) \* G$',
                      str(res[i]))
        ok = False
        if mt:
          ix, iy, il = int(mt.group(1), 16), int(mt.group(2), 16), int(
              mt.group(3))
          if True:
            qx, qy, dl = (pysym.format_arg(e, ix), pysym.format_arg(e, iy),
                          pysym.format_arg(e, il))
            eq = z3.If(qy == 1, qx, q - qx)
            rgoals.append((ds[i].t - eq - dl) % q == 0)
            rgoals.append(z3.Or([(eq - o.t) % q == 0
                                 for j, o in enumerate(ds_all) if j != i]))
            ok = True
        if not ok:
          rgoals.append(z3.BoolVal(False))
    for tag, gl in (('flags', goals), ('relation', rgoals)):
      if (tag == 'flags' and 'complete' not in aspects) or (
          tag == 'relation' and 'relation' not in aspects) or not gl:
        continue
      r, m, _ = e.prove(z3.And(gl))
      if r == 'proved':
        rec.obligation('proved')
      elif r == 'unknown':
        rec.obligation('unknown', 'BatchDLOfDifferences ' + tag)
      else:
        cexs.append((tag, inputs_of(e, m)))
    done += 1
  rec.sample(dict(q=q, max_diff=max_diff, keys=L, paths=done))
  rec.reach(1, 1 if done else 0)
  seen = set()
  for tag, cex in cexs:
    if tag.split(' ')[0] in seen:
      continue
    seen.add(tag.split(' ')[0])
    ds = [cex['d%d' % i] for i in range(L)]
    dh = cex.get('dh')
    if tag == 'relation':
      bad, detail = replay_relation(ds, dh, max_diff)
    else:
      bad, detail = replay_diff(ds, dh, max_diff)
    rec.replayed()
    rec.violation('ec_util.EcCurve.BatchDLOfDifferences', tag.split(' ')[0],
                  detail, dict(keys=ds, history=dh, max_diff=max_diff),
                  dict(module='harness.props.c10',
                       function='replay_relation_cmd' if tag == 'relation'
                       else 'replay_diff_cmd',
                       args=dict(ds=ds, dh=dh, max_diff=max_diff)), bad)


def replay_diff(ds, dh, max_diff):
  pb, ec_util = _mods()
  c0 = ec_util.CURVE_FACTORY[2]
  c = ec_util.EcCurve('replay', int(c0.a), int(c0.b), int(c0.mod),
                      int(c0.g[0]), int(c0.g[1]), int(c0.n))
  ds = [int(x) for x in ds]
  pts = [c.Multiply(c.g, x) for x in ds]
  other = [c.Multiply(c.g, int(dh))] if dh is not None else None
  try:
    res = c.BatchDLOfDifferences(pts, other, int(max_diff))
  except Exception as ex:  # pylint: disable=broad-except
    return True, 'raised %r' % (ex,)
  allk = ds + ([int(dh)] if dh is not None else [])
  want = [any(j != i and o != ds[i] and abs(o - ds[i]) < max_diff
              for j, o in enumerate(allk)) for i in range(len(ds))]
  loose = [any(j != i and o != ds[i] and abs(o - ds[i]) <= 2 * max_diff + 2
               for j, o in enumerate(allk)) for i in range(len(ds))]
  got = [r is not None for r in res]
  bad = any((w and not g) or (g and not l)
            for w, g, l in zip(want, got, loose))
  return bad, 'flags %r, required %r for keys %r (+%r), max_diff %d' % (
      got, want, ds, dh, max_diff)


def replay_relation(ds, dh, max_diff):
  """Every relation text recorded by the real code on a real curve is true
  for the key it is recorded for."""
  import re  # pylint: disable=g-import-not-at-top
  pb, ec_util = _mods()
  c0 = ec_util.CURVE_FACTORY[2]
  c = ec_util.EcCurve('replay', int(c0.a), int(c0.b), int(c0.mod),
                      int(c0.g[0]), int(c0.g[1]), int(c0.n))
  ds = [int(x) for x in ds]
  for off in (0, 2**200 + 17):
    pts = [c.Multiply(c.g, x + off) for x in ds]
    other = [c.Multiply(c.g, int(dh) + off)] if dh is not None else None
    try:
      res = c.BatchDLOfDifferences(pts, other, int(max_diff))
    except Exception as ex:  # pylint: disable=broad-except
      return True, 'raised %r' % (ex,)
    allp = pts + (other or [])
    for i, r_ in enumerate(res):
      if r_ is None:
        continue
      mt = re.match(r'key - \(([0-9a-f]+), ([0-9a-f]+)\) = (-?\d+) \* G$', r_)
      if not mt:
        return True, 'unparsable relation %r' % (r_,)
      Q = (int(mt.group(1), 16), int(mt.group(2), 16))
      k = int(mt.group(3))
      if c.Subtract(pts[i], Q) != c.Multiply(c.g, k) or not any(
          (int(a[0]), int(a[1])) == Q for j, a in enumerate(allp) if j != i):
        return True, ('relation %r recorded for key %d (private keys %r + %r'
                      ', offset %d) is false' % (r_, i, ds, dh, off))
  return False, 'every recorded relation holds'


def replay_relation_cmd(ds, dh, max_diff):
  bad, detail = replay_relation(ds, dh, max_diff)
  print(detail)
  return bad


def replay_diff_cmd(ds, dh, max_diff):
  bad, detail = replay_diff(ds, dh, max_diff)
  print(detail)
  return bad


class LinPoint:
  """The point (c * w) * G for the symbolic 32-bit word w: scalar
  multiplication by constants keeps c concrete (mod q)."""

  def __init__(self, c):
    self.c = c


def extended(rec, seed, curve_id, shape, negative=False):
  """ExtendedBatchDL index/multiplier arithmetic with BatchDL replaced by its
  contract.  Points are abstract: key = (M * w) * G for a symbolic 32-bit w."""
  import gmpy2  # pylint: disable=g-import-not-at-top
  pb, ec_util = _mods()
  if curve_id in ec_util.CURVE_FACTORY and ec_util.CURVE_FACTORY[curve_id]:
    q = int(ec_util.CURVE_FACTORY[curve_id].n)
    qname = 'order of ' + ec_util.CURVE_FACTORY[curve_id].name
  else:
    q = int(gmpy2.next_prime(2**(curve_id - 1) + 2**(curve_id - 3)))
    qname = 'a prime order of %d bits' % curve_id
  bits = q.bit_length()
  rec.functions('paranoid_crypto.lib.ec_util:EcCurve.ExtendedBatchDL')
  rec.bounds('cyclic group, %s; private keys %s with w symbolic in [1, 2^32); '
             'batches of 1 and 2 keys; BatchDL(points, 2^32) returns the '
             'exponent of every point whose exponent is below 2^32 and None '
             'otherwise; scenarios: no other transformed point is small, or '
             'exactly one chosen other one is' %
             (qname, 'w * 2^(8j) for every byte offset j' if shape == 'shift'
              else 'w repeated 2..%d times' % (bits // 32)))
  cexs = []
  done = 0
  if shape == 'shift':
    mults = [2**j for j in range(0, bits - 31, 8)]
  else:
    mults = [sum(2**(32 * i) for i in range(j)) for j in range(2, bits // 32 +
                                                               1)]

  class Curve(ec_util.EcCurve):

    def __init__(self):
      self.n = gmpy2.mpz(q)
      self.name = 'abstract'
      self.mod = gmpy2.mpz(gmpy2.next_prime(q + 2**(bits // 2)))
      self.h = 1
      self._cache, self._table, self._table_size = {}, {}, 0

    def Multiply(self, p, k):
      return LinPoint(p.c * int(k) % q)

    def BatchDL(self, points, bound):
      stubs.USED.add('EcCurve.BatchDL: x for every point x*G with 0 <= x < '
                     'bound, None otherwise (established by the BatchDL jobs)')
      e = pysym.eng()
      w = e.notes['w']
      out = []
      extra = e.notes.get('extra')
      for idx, P in enumerate(points):
        if P.c == 0:
          out.append(0)
        elif P.c == 1:
          out.append(w)  # w < 2^32 = bound
        elif P.c == q - 1:
          out.append(-w)  # BatchDL reports -dl for the negated point
        else:
          # exponent r = (c * w) mod q with an explicit quotient witness; no
          # fork: the scenario fixes which other transformed point (if any)
          # also has an exponent below the bound
          k = e.fresh('k')
          r = P.c * w.t - q * k
          e.assume(z3.And(r >= 0, r < q))
          if idx == extra:
            e.assume(r < bound)
            out.append(SInt(r))
          else:
            e.assume(r >= bound)
            out.append(None)
      e.notes['bound'] = bound
      return out

  allm = [2**j for j in range(0, bits - 31, 8)] + [
      sum(2**(32 * i) for i in range(j)) for j in range(2, bits // 32 + 1)]
  scen = []
  for mult in mults:
    for nkeys in (1, 2):
      scen.append((mult, nkeys, None))
      step = max(1, len(allm) // (6 if bits > 100 else 40))
      for xk in range(0, len(allm) * nkeys, step * nkeys):
        scen.append((mult, nkeys, xk + nkeys - 1))
  unknowns = [0]
  for mult, nkeys, extra in scen:
    if len(cexs) >= 2 or unknowns[0] >= 3:
      break
    for _once in (1,):

      def run(e, mult=mult, nkeys=nkeys, extra=extra):
        e.notes['extra'] = extra
        c = Curve()
        w = ivar(e, 'w', lo=1, hi=2**32)
        e.assume(w.t * mult < q)
        e.notes['w'] = w
        sgn = -1 if negative else 1
        keys = [LinPoint(sgn * mult % q)]
        if nkeys == 2:
          keys = [LinPoint((mult * 3 + 12345) % q), LinPoint(sgn * mult % q)]
        e.notes['sgn'] = sgn
        e.notes['pos'] = len(keys) - 1
        return c.ExtendedBatchDL(keys)

      with stubs.patched(ec_util, gmpy=stubs.GMPY, int=stubs.sym_int):
        for p in pysym.explore(run, max_paths=3000, feas_timeout_ms=1500):
          e = p.eng
          rec.path(p.kind)
          if p.kind == 'abort':
            rec.inconclusive('path aborted: %s' % p.value)
            continue
          if p.kind == 'raise':
            r, m = e.feasible()
            if r == 'sat':
              cexs.append(('raises %r' % (p.value,), mult, inputs_of(e, m)))
            elif r != 'unsat':
              rec.inconclusive('exception path undecided')
            continue
          w, pos = e.notes['w'], e.notes['pos']
          got = p.value[pos]
          if got is None:
            r, m = e.feasible()
            if r == 'sat':
              cexs.append(('missed', mult, inputs_of(e, m)))
            elif r == 'unsat':
              rec.obligation('proved')
            else:
              rec.obligation('unknown', 'ExtendedBatchDL None path')
          else:
            r, m, _ = e.prove(
                (T(got) - e.notes['sgn'] * w.t * mult) % q == 0,
                timeout_ms=20000)
            if r == 'proved':
              rec.obligation('proved')
            elif r == 'unknown':
              # no verdict: try the concrete differential oracle on the real
              # curves for this key shape before giving up
              unknowns[0] += 1
              w0 = 0x1234
              if shape == 'shift':
                dreal = w0 << (8 * ((mult.bit_length() - 1) // 8))
              else:
                dreal = sum(w0 << (32 * i) for i in range(
                    (mult.bit_length() + 31) // 32))
              if negative:
                dreal = -dreal
              badr, detr = replay_extended(2, dreal)
              rec.replayed()
              if badr:
                cexs.append(('wrong_value', mult, {'w': w0}))
              else:
                rec.obligation('unknown', 'ExtendedBatchDL value')
            else:
              cexs.append(('wrong_value', mult, inputs_of(e, m)))
          done += 1
  rec.sample(dict(order=qname, shape=shape, multipliers=len(mults),
                  paths=done))
  rec.reach(1, 1 if done else 0)
  seen = set()
  for tag, mult, cex in cexs:
    if tag.split(' ')[0] in seen:
      continue
    seen.add(tag.split(' ')[0])
    rec.replayed()
    if shape == 'shift':
      dreal = cex['w'] << (8 * ((mult.bit_length() - 1) // 8))
    else:
      reps = (mult.bit_length() + 31) // 32
      dreal = sum(cex['w'] << (32 * i) for i in range(reps))
    if negative:
      dreal = -dreal
    bad, detail, cid_real = False, '', 2
    for cid_real in (2, 4, 5):
      bad, detail = replay_extended(cid_real, dreal)
      if bad:
        break
    if not bad and shape == 'shift':
      # the same multiplier position (counted from the bottom and from the
      # top of the ladder) on every named curve, incl. orders whose length is
      # not a multiple of 32 bits
      jb = (mult.bit_length() - 1) // 8
      jt = (q.bit_length() - 32) // 8 - jb
      for cid_real, c_ in sorted(ec_util.CURVE_FACTORY.items()):
        if c_ is None:
          continue
        top = (int(c_.n).bit_length() - 32) // 8
        for j in sorted({jb, top - jt, top}):
          if not 0 <= j <= top:
            continue
          d2 = cex['w'] << (8 * j)
          d2 = -d2 if negative else d2
          bad, detail = replay_extended(cid_real, d2)
          rec.replayed()
          if bad:
            dreal = d2
            break
        if bad:
          break
    rec.violation('ec_util.EcCurve.ExtendedBatchDL', tag.split(' ')[0],
                  detail, dict(d=dreal),
                  dict(module='harness.props.c10',
                       function='replay_extended_cmd',
                       args=dict(curve_id=cid_real, d=str(dreal))), bad)


def replay_extended(curve_id, d):
  """Real curve arithmetic; BatchDL replaced by a concrete oracle over the
  known exponent (the 2^32 table would take minutes)."""
  pb, ec_util = _mods()
  c = ec_util.CURVE_FACTORY[int(curve_id)]
  d = int(d)
  q = int(c.n)
  d %= q
  P = c.Multiply(c.g, d)
  known = {}

  def oracle(points, bound):
    out = []
    for pt in points:
      hit = None
      # the points handed over are P * inverse_j: exponent d * inv_j mod q
      for m_, inv in known.items():
        pass
      out.append(hit)
    return out

  # concrete oracle: the documented multipliers give the points P * m^-1 and
  # their exponents d * m^-1; the points the code hands over are looked up
  # (a point that belongs to no documented multiplier has no small log)
  bits = q.bit_length()
  multipliers = [2**j for j in range(0, bits - 31, 8)] + [
      sum(2**(32 * i) for i in range(j)) for j in range(2, bits // 32 + 1)]
  table = {}
  for m_ in multipliers:
    inv = pow(m_, -1, q)
    pt = c.Multiply(P, inv)
    table[(int(pt[0]), int(pt[1])) if pt != ec_util.INFINITY else None] = (
        d * inv % q)

  def batch_dl(points, bound):
    out = []
    for pt in points:
      key = None if pt == ec_util.INFINITY else (int(pt[0]), int(pt[1]))
      e_ = table.get(key)
      if e_ is None:
        out.append(None)
      else:
        out.append(e_ if e_ < bound else (-(q - e_) if q - e_ < bound
                                          else None))
    return out

  orig = c.BatchDL
  c.BatchDL = batch_dl
  try:
    res = c.ExtendedBatchDL([P])
  except Exception as ex:  # pylint: disable=broad-except
    return True, 'raised %r' % (ex,)
  finally:
    c.BatchDL = orig
  got = res[0]
  ok = got is not None and (int(got) - d) % q == 0
  return not ok, 'ExtendedBatchDL -> %r for private key %#x' % (got, d)


def replay_extended_cmd(curve_id, d):
  bad, detail = replay_extended(curve_id, d)
  print(detail)
  return bad


def jobs(tier, seed):
  thorough = tier == 'thorough'
  out = []
  q = 251
  ns = [1, 2, 3, 4, 5, 7, 8, 9, 12, 16, 17, 24, 25, 31, 32, 33, 40] if not \
      thorough else list(range(1, 97))
  for n in ns:
    out.append(Job('batchdl_n%d' % n, batch_dl,
                   dict(q=q, n=n, L=1, history=[]), timeout=3000, cost=n))
  for n in ([4, 9, 16] if not thorough else [4, 9, 16, 25, 30, 48, 64]):
    for L in (2, 3):
      if L == 3 and n > (9 if not thorough else 25):
        continue
      out.append(Job('batchdl_n%d_L%d' % (n, L), batch_dl,
                     dict(q=q if n * L < 120 else 65521, n=n, L=L,
                          history=[]), timeout=3000, cost=n**L / 10.0))
  hists = [[('dl', 64, 3)], [('dl', 4, 1)], [('diff', 40)], [('diff', 3)],
           [('dl', 100, 2), ('diff', 5)], [('diff', 30), ('dl', 9, 1)]]
  for hi_, h in enumerate(hists):
    for n in ([10, 33, 80] if not thorough else [5, 10, 20, 33, 50, 80, 96]):
      out.append(Job('batchdl_hist%d_n%d' % (hi_, n), batch_dl,
                     dict(q=65521, n=n, L=1, history=h), timeout=3000,
                     cost=n))
  for md in ([2, 5, 8] if not thorough else [2, 3, 5, 8, 12, 16]):
    out.append(Job('diff_md%d_L2' % md, differences,
                   dict(q=65521, max_diff=md, L=2, with_history_list=False),
                   timeout=3000, cost=md * 10))
  out.append(Job('diff_md3_L3', differences,
                 dict(q=65521, max_diff=3, L=3, with_history_list=False),
                 timeout=3000, cost=100))
  out.append(Job('diff_md3_hist', differences,
                 dict(q=65521, max_diff=3, L=2, with_history_list=True),
                 timeout=3000, cost=100))
  out.append(Job('diff_md2_L3_hist', differences,
                 dict(q=65521, max_diff=2, L=3, with_history_list=True),
                 timeout=3000, cost=300))
  for qbits in ([2, 72] if not thorough else [2, 4, 5, 6, 17, 40, 72, 96]):
    for shape in ('shift', 'repeat'):
      if shape == 'repeat' and 20 < qbits < 64:
        continue
      out.append(Job('extended_q%d_%s' % (qbits, shape), extended,
                     dict(curve_id=qbits, shape=shape), timeout=3000,
                     cost=60))
      out.append(Job('extended_q%d_%s_neg' % (qbits, shape), extended,
                     dict(curve_id=qbits, shape=shape, negative=True),
                     timeout=3000, cost=60))
  return out
