"""C02 - every recorded discrete log / key relation is true (filters)."""
import itertools

import z3

from harness import common
from harness import pb2shim
from harness import pysym
from harness import stubs
from harness.common import T, ivar, boolvar, inputs_of
from harness.pysym import SInt
from harness.props import c10
from harness.runner import Job

OUTSIDE = [
    'the quality of the guesses produced by the lattice attacks (C08) - the '
    'filters are run with arbitrary guess sets',
    'Cr50U2fGuesses congruence filter on 256-bit orders (products of two '
    'symbolic residues modulo a 256-bit prime: no verdict in reach)',
    'real point arithmetic inside the filters: BatchMultiplyG / Multiply are '
    'the group law by contract (C11)',
]
ASSUMPTIONS = [
    'cyclic-group model of the curve (C10) with the look-up table havocked: '
    'membership and stored index arbitrary',
]


def _mods():
  pb = common.lib(fakes=True)
  pb2shim.use_fakes(True)
  from paranoid_crypto.lib import paranoid  # pylint: disable=g-import-not-at-top,unused-import
  from paranoid_crypto.lib import ec_util, util, ecdsa_sig_checks as sigc  # pylint: disable=g-import-not-at-top
  from paranoid_crypto.lib import hidden_number_problem as hnp  # pylint: disable=g-import-not-at-top
  from paranoid_crypto.lib import cr50_u2f_weakness as cr50  # pylint: disable=g-import-not-at-top
  return pb, ec_util, util, sigc, hnp, cr50


class HavocTable(dict):
  """Look-up table with arbitrary content: `x in t` is an arbitrary boolean,
  t[x] an arbitrary index in [0, size)."""

  def __init__(self, size):
    super().__init__()
    self.size = size

  def __contains__(self, x):
    e = pysym.eng()
    return e.decide(e.fresh('in_table', 'bool'))

  def __getitem__(self, x):
    e = pysym.eng()
    t = e.fresh('table_idx')
    e.assume(z3.And(t >= 0, t < self.size))
    return SInt(t)

  def get(self, x, default=None):
    if x in self:
      return self[x]
    return default


def batch_dl_sound(rec, seed, q, n, L):
  pb, ec_util, util, sigc, hnp, cr50 = _mods()
  Model = c10.make_model(ec_util, q)
  rec.functions('paranoid_crypto.lib.ec_util:EcCurve.BatchDL')
  rec.bounds('cyclic group of prime order %d, bound %d, %d arbitrary target '
             'points e_i*G (0 <= e_i < q symbolic); look-up table havocked' %
             (q, n, L))
  cexs = []
  done = 0
  import math  # pylint: disable=g-import-not-at-top

  def run(e):
    c = Model()
    size = int(math.sqrt(n * L))
    c._table = HavocTable(max(size, 1))
    c._table_size = max(size, 1) + 1000  # never rebuilt
    es = [ivar(e, 'e%d' % i, lo=0, hi=q) for i in range(L)]
    e.notes['es'] = es
    return c.BatchDL([Model.enc(x) for x in es], n)

  for p in pysym.explore(run, max_paths=6000):
    e = p.eng
    rec.path(p.kind)
    if p.kind != 'return':
      if p.kind == 'raise':
        continue  # totality is C18
      rec.inconclusive('path aborted: %s' % p.value)
      continue
    es = e.notes['es']
    goal = z3.BoolVal(len(p.value) == L)
    for x, r_ in zip(es, p.value):
      if r_ is not None:
        goal = z3.And(goal, (T(r_) - x.t) % q == 0)
    r, m, _ = e.prove(goal)
    if r == 'proved':
      rec.obligation('proved')
    elif r == 'unknown':
      rec.obligation('unknown', 'BatchDL soundness')
    else:
      cexs.append(inputs_of(e, m))
    done += 1
  rec.sample(dict(fn='BatchDL', q=q, n=n, L=L, paths=done))
  rec.reach(1, 1 if done else 0)
  for cex in cexs[:2]:
    es = [cex['e%d' % i] for i in range(L)]
    bad, detail = replay_dl_sound(es, n)
    rec.replayed()
    rec.violation('ec_util.EcCurve.BatchDL', 'unsound_log', detail,
                  dict(exponents=es, n=n),
                  dict(module='harness.props.c02',
                       function='replay_dl_sound_cmd',
                       args=dict(es=es, n=n)), bad)


def replay_dl_sound(es, n):
  """Real secp256r1: every non-None result reproduces the point; probes small,
  negative-small and unrelated exponents."""
  pb, ec_util, util, sigc, hnp, cr50 = _mods()
  c0 = ec_util.CURVE_FACTORY[2]
  c = ec_util.EcCurve('replay', int(c0.a), int(c0.b), int(c0.mod),
                      int(c0.g[0]), int(c0.g[1]), int(c0.n))
  qn = int(c.n)
  probes = [int(x) % qn for x in es] + list(range(0, 3 * int(n) + 3)) + [
      qn - k for k in range(1, 2 * int(n) + 2)] + [2**200 + 5, 12345678901234]
  for bound in {int(n), 7, 64}:
    pts = [c.Multiply(c.g, x) for x in probes]
    try:
      res = c.BatchDL(pts, bound)
    except Exception as ex:  # pylint: disable=broad-except
      return True, 'raised %r' % (ex,)
    for x, r_, pt in zip(probes, res, pts):
      if r_ is not None and c.Multiply(c.g, int(r_)) != pt:
        return True, 'BatchDL reports %r for the point %d*G' % (r_, x)
  return False, 'every reported log reproduces its point'


def replay_dl_sound_cmd(es, n):
  bad, detail = replay_dl_sound(es, n)
  print(detail)
  return bad


def differences_sound(rec, seed, q, max_diff, with_history=True, nkeys=2):
  import re  # pylint: disable=g-import-not-at-top
  pb, ec_util, util, sigc, hnp, cr50 = _mods()
  Model = c10.make_model(ec_util, q)
  rec.functions('paranoid_crypto.lib.ec_util:EcCurve.BatchDLOfDifferences')
  rec.bounds('cyclic group of prime order %d; %d arbitrary keys%s (exponents '
             'symbolic in [1, q), duplicates included); look-up table '
             'havocked; every relation text produced is captured through its '
             'format arguments and tied to the key it is reported for' %
             (q, nkeys, ' and one history key' if with_history else ''))
  cexs = []
  done = 0

  def run(e):
    c = Model()
    c._table = HavocTable(max_diff)
    c._table_size = max_diff + 1000
    ds = [ivar(e, 'd%d' % i, lo=1, hi=q) for i in range(nkeys + 1)]
    e.notes['ds'] = ds
    e.notes['format_placeholder_in'] = {'BatchDLOfDifferences'}
    pts = [Model.enc(x) for x in ds]
    e.notes['pts'] = pts
    if not with_history:
      return c.BatchDLOfDifferences(pts[:nkeys], None, max_diff)
    return c.BatchDLOfDifferences(pts[:nkeys], [pts[nkeys]], max_diff)

  for p in pysym.explore(run, max_paths=20000):
    e = p.eng
    rec.path(p.kind)
    if p.kind != 'return':
      if p.kind != 'raise':
        rec.inconclusive('path aborted: %s' % p.value)
      continue
    ds = e.notes['ds']
    args = e.notes.get('format_args', [])
    goal = z3.BoolVal(len(p.value) == nkeys)
    for i, r_ in enumerate(p.value):
      if r_ is None:
        continue
      mt = re.match(r'key - \(([0-9a-f]+), ([0-9a-f]+)\) = (-?\d+) \* G$',
                    str(r_))
      if not mt or i >= nkeys:
        goal = z3.BoolVal(False)
        continue
      ix, iy, il = int(mt.group(1), 16), int(mt.group(2), 16), int(
          mt.group(3))
      qx, qy, dl = (pysym.format_arg(e, ix), pysym.format_arg(e, iy),
                    pysym.format_arg(e, il))
      # exponent of the recorded point Q = (qx, qy)
      eq = z3.If(qy == 1, qx, q - qx)
      # the key the relation is reported for satisfies key - Q = dl * G, and
      # Q is another artifact of the batch (or of the history)
      goal = z3.And(goal, (ds[i].t - eq - dl) % q == 0,
                    z3.Or([z3.And((eq - d.t) % q == 0)
                           for k, d in enumerate(ds) if k != i and (
                               with_history or k < nkeys)]))
    r, m, _ = e.prove(goal)
    if r == 'proved':
      rec.obligation('proved')
    elif r == 'unknown':
      rec.obligation('unknown', 'relation soundness')
    else:
      cexs.append(inputs_of(e, m))
    done += 1
  rec.sample(dict(fn='BatchDLOfDifferences', q=q, paths=done))
  rec.reach(1, 1 if done else 0)
  for cex in cexs[:2]:
    ds = [cex['d%d' % i] for i in range(nkeys + 1)]
    bad, detail = replay_diff_sound(ds, max_diff)
    rec.replayed()
    rec.violation('ec_util.EcCurve.BatchDLOfDifferences', 'unsound_relation',
                  detail, dict(keys=ds, max_diff=max_diff),
                  dict(module='harness.props.c02',
                       function='replay_diff_sound_cmd',
                       args=dict(ds=ds, max_diff=max_diff)), bad)


def replay_diff_sound(ds, max_diff):
  import re  # pylint: disable=g-import-not-at-top
  pb, ec_util, util, sigc, hnp, cr50 = _mods()
  c0 = ec_util.CURVE_FACTORY[2]
  c = ec_util.EcCurve('replay', int(c0.a), int(c0.b), int(c0.mod),
                      int(c0.g[0]), int(c0.g[1]), int(c0.n))
  qn = int(c.n)
  ds = [int(d) for d in ds]
  nk = len(ds) - 1
  batches = [[d % qn or 1 for d in ds]]
  # the counterexample's shape (equalities and small differences between
  # the exponents of the toy group) transferred to the real curve
  order = sorted(set(ds))
  big = {}
  for rank, v in enumerate(order):
    prev = order[rank - 1] if rank else None
    if prev is not None and v - prev <= max_diff + 1:
      big[v] = big[prev] + (v - prev)
    else:
      big[v] = 2**100 * (rank + 1) + 12345
  batches.append([big[d] for d in ds])
  for base in (5, 2**100 + 3, qn - 9):
    for dd in (1, 2, max_diff - 1, max_diff, max_diff + 1):
      batches.append(([base, base + dd, base + 2 * dd + 1] * nk)[:nk + 1])
      batches.append(([base + dd, base, base] * nk)[:nk + 1])
      batches.append(([base, base, base + 7 * max_diff, base + 7 * max_diff +
                       dd] * nk)[:nk + 1])
  for b in batches:
    pts = [c.Multiply(c.g, x % qn) for x in b]
    try:
      res = c.BatchDLOfDifferences(pts[:nk], [pts[nk]], int(max_diff))
    except Exception as ex:  # pylint: disable=broad-except
      return True, 'raised %r' % (ex,)
    for i, r_ in enumerate(res):
      if r_ is None:
        continue
      mt = re.match(r'key - \(([0-9a-f]+), ([0-9a-f]+)\) = (-?\d+) \* G', r_)
      if not mt:
        return True, 'unparsable relation %r' % (r_,)
      Q = (int(mt.group(1), 16), int(mt.group(2), 16))
      k = int(mt.group(3))
      if c.Subtract(pts[i], Q) != c.Multiply(c.g, k):
        return True, 'relation %r is false for key %d*G' % (r_, b[i])
  return False, 'every recorded relation holds'


def replay_diff_sound_cmd(ds, max_diff):
  bad, detail = replay_diff_sound(ds, max_diff)
  print(detail)
  return bad


class KeyDict(dict):
  """dict whose (tuple) keys contain proxies: look-ups compare with ==."""

  def _find(self, k):
    for key in self.keys():
      if k == key:  # elementwise, forks
        return key
    return None

  def __contains__(self, k):
    return self._find(k) is not None

  def __getitem__(self, k):
    key = self._find(k)
    if key is None:
      raise KeyError(k)
    return dict.__getitem__(self, key)


def issuer_dlogs(rec, seed, nguesses):
  pb, ec_util, util, sigc, hnp, cr50 = _mods()
  rec.functions('paranoid_crypto.lib.ecdsa_sig_checks:_IssuerDLogs')
  rec.bounds('%d guesses 1..%d (BatchMultiplyG(i) = the i-th distinct point), '
             'one issuer key equal to the h-th point with h symbolic, filed '
             'under signature indexes [0, 2]' % (nguesses, nguesses))
  cexs = []
  done = 0

  class Curve:

    def BatchMultiplyG(self, scalars):
      stubs.USED.add('EcCurve.BatchMultiplyG: scalar i -> the distinct point '
                     '(i, 7*i+1) (group law is C11)')
      return [(s, 7 * s + 1) for s in scalars]

  def run(e):
    h = ivar(e, 'h', lo=1, hi=nguesses + 1)
    e.notes['h'] = h
    pks = KeyDict({(h, 7 * h + 1): [0, 2]})
    return sigc._IssuerDLogs(list(range(1, nguesses + 1)), pks, Curve())

  for p in pysym.explore(run, max_paths=5000):
    e = p.eng
    rec.path(p.kind)
    if p.kind != 'return':
      r, m = e.feasible()
      if r == 'sat':
        cexs.append(inputs_of(e, m))
      continue
    h = e.notes['h'].t
    res = p.value
    goal = z3.BoolVal(set(res) <= {0, 2})
    for idx, d in res.items():
      goal = z3.And(goal, T(d) == h)
    goal = z3.And(goal, z3.BoolVal(set(res) == {0, 2}))  # the hit is reported
    r, m, _ = e.prove(goal)
    if r == 'proved':
      rec.obligation('proved')
    elif r == 'unknown':
      rec.obligation('unknown', '_IssuerDLogs')
    else:
      cexs.append(inputs_of(e, m))
    done += 1
  rec.sample(dict(fn='_IssuerDLogs', guesses=nguesses, paths=done))
  rec.reach(1, 1 if done else 0)
  for cex in cexs[:2]:
    bad, detail = replay_issuer_dlogs(nguesses, cex.get('h', 1))
    rec.replayed()
    rec.violation('ecdsa_sig_checks._IssuerDLogs', 'wrong_log', detail,
                  dict(guesses=nguesses, h=cex.get('h')),
                  dict(module='harness.props.c02',
                       function='replay_issuer_dlogs_cmd',
                       args=dict(nguesses=nguesses, h=cex.get('h', 1))), bad)


def replay_issuer_dlogs(nguesses, h):
  pb, ec_util, util, sigc, hnp, cr50 = _mods()
  c = ec_util.CURVE_FACTORY[2]
  nguesses, h = int(nguesses), int(h)
  guesses = [1000 + 17 * i for i in range(nguesses)]
  d = guesses[h - 1]
  pk = c.Multiply(c.g, d)
  try:
    res = sigc._IssuerDLogs(guesses, {pk: [0, 2]}, c)
  except Exception as ex:  # pylint: disable=broad-except
    return True, 'raised %r' % (ex,)
  ok = set(res) == {0, 2} and all(c.Multiply(c.g, int(v)) == pk
                                  for v in res.values())
  return not ok, '_IssuerDLogs with %d guesses, true key at position %d -> %r' \
      % (nguesses, h, {k: int(v) for k, v in res.items()})


def replay_issuer_dlogs_cmd(nguesses, h):
  bad, detail = replay_issuer_dlogs(nguesses, h)
  print(detail)
  return bad


def nonce_check_sound(rec, seed, check, nsigs, mixed=False):
  """result == True  =>  DISCRETE_LOG attached and MulG(log) == issuer key."""
  from harness.props import c18  # pylint: disable=g-import-not-at-top
  pb, ec_util, util, sigc, hnp, cr50 = _mods()
  cid = 2
  curve = ec_util.CURVE_FACTORY[cid]
  n = int(curve.n)
  rec.functions('paranoid_crypto.lib.ecdsa_sig_checks:%s.Check' % check,
                'paranoid_crypto.lib.ecdsa_sig_checks:_IssuerDLogs')
  rec.bounds('%d signatures of one issuer (symbolic key point) on secp256r1; '
             'guess producers arbitrary (havocked lattice reduction); '
             'BatchMultiplyG(d) = (MulGx(d), MulGy(d)) uninterpreted' % nsigs)
  MulGx = z3.Function('MulGx', z3.IntSort(), z3.IntSort())
  MulGy = z3.Function('MulGy', z3.IntSort(), z3.IntSort())
  # mixed batches: the last signature is on a curve that the check visits
  # later, with its own issuer key and its own scalar multiplication
  later = [k for k, v in ec_util.CURVE_FACTORY.items() if v is not None]
  cid2 = later[later.index(cid) + 1]
  MulG2x = z3.Function('MulG2x', z3.IntSort(), z3.IntSort())
  MulG2y = z3.Function('MulG2y', z3.IntSort(), z3.IntSort())
  name2 = ec_util.CURVE_FACTORY[cid2].name
  if mixed:
    rec.bounds('%d signatures of one issuer on secp256r1 plus one signature '
               'of another issuer on %s (symbolic key points); guess '
               'producers arbitrary; BatchMultiplyG uninterpreted per curve'
               % (nsigs - 1, name2))
  cexs = []
  done = 0
  chk = getattr(sigc, check)()

  def reduce_stub(lat):
    e = pysym.eng()
    return [[SInt(e.fresh('lll')) for _ in range(len(lat[0]))]]

  def mulg(self, scalars):
    fx, fy = (MulG2x, MulG2y) if self.name == name2 else (MulGx, MulGy)
    return [(pysym._wrap_int(fx(T(s))), pysym._wrap_int(fy(T(s))))
            for s in scalars]

  def hnp_curve(a, b, curve_type, lcg, flags):
    e = pysym.eng()
    return [SInt(e.fresh('guess'))]

  def run(e):
    kx, ky = ivar(e, 'kx', lo=0), ivar(e, 'ky', lo=0)
    k2x, k2y = ivar(e, 'k2x', lo=0), ivar(e, 'k2y', lo=0)
    e.notes.update(k2x=k2x, k2y=k2y)
    sigs = []
    for i in range(nsigs):
      s = pb.ECDSASignature()
      s.issuer_key_info.curve_type = cid
      s.issuer_key_info.x, s.issuer_key_info.y = kx, ky
      if mixed and i == nsigs - 1:
        s.issuer_key_info.curve_type = cid2
        s.issuer_key_info.x, s.issuer_key_info.y = k2x, k2y
      s.ecdsa_sig_info.r = 1000 + i
      s.ecdsa_sig_info.s = ivar(e, 's%d' % i, lo=1, hi=n)
      s.ecdsa_sig_info.message_hash = c18.HashVal(
          ivar(e, 'h%d' % i, lo=0, hi=2**256), 32)
      sigs.append(s)
    att = []
    e.notes.update(sigs=sigs, att=att, kx=kx, ky=ky)
    with stubs.patched(util, AttachInfo=lambda ti, nm, v: att.append(
        (ti, nm, v))):
      return chk.Check(sigs)

  with stubs.patched(util, Bytes2Int=c18._b2i), \
      stubs.patched(ec_util, gmpy=stubs.GMPY), \
      stubs.patched(hnp, gmpy=stubs.GMPY, int=stubs.sym_int,
                    lll=type('L', (), dict(reduce=staticmethod(reduce_stub))),
                    HiddenNumberProblemForCurve=hnp_curve), \
      stubs.patched(cr50, gmpy=stubs.GMPY, int=stubs.sym_int, abs=abs,
                    lll=type('L', (), dict(reduce=staticmethod(reduce_stub)))), \
      stubs.patched(sigc, logging=common.QUIET, format=lambda v, s: v,
                    int=stubs.sym_int), \
      c18.checklevel_attr(ec_util.EcCurve, 'BatchMultiplyG', mulg):
    for p in pysym.explore(run, max_paths=3000, feas_timeout_ms=1000):
      e = p.eng
      rec.path(p.kind)
      if p.kind != 'return':
        continue  # totality is C18
      sigs, att = e.notes['sigs'], e.notes['att']
      kx, ky = e.notes['kx'].t, e.notes['ky'].t
      goal = z3.BoolVal(True)
      for s in sigs:
        ents = [r_ for r_ in s.test_info.test_results
                if r_.test_name == check]
        if len(ents) != 1:
          goal = z3.BoolVal(False)
          break
        mine = [a for a in att if a[0] is s.test_info]
        flagged = pysym.sbool(ents[0].result)
        if mine:
          v = mine[-1][2]
          if mixed and s is sigs[-1]:
            ok = z3.And(z3.BoolVal(mine[-1][1] == 'DISCRETE_LOG'),
                        MulG2x(T(v)) == e.notes['k2x'].t,
                        MulG2y(T(v)) == e.notes['k2y'].t)
          else:
            ok = z3.And(z3.BoolVal(mine[-1][1] == 'DISCRETE_LOG'),
                        MulGx(T(v)) == kx, MulGy(T(v)) == ky)
        else:
          ok = z3.BoolVal(False)
        goal = z3.And(goal, z3.Implies(flagged, ok),
                      pysym.sbool(s.test_info.weak) == flagged)
      r, m, _ = e.prove(goal, timeout_ms=60000)
      if r == 'proved':
        rec.obligation('proved')
      elif r == 'unknown':
        rec.obligation('unknown', check + ' soundness')
      else:
        cexs.append({k: str(v) for k, v in inputs_of(e, m).items()})
      done += 1
  rec.sample(dict(check=check, signatures=nsigs, paths=done))
  rec.reach(1, 1 if done else 0)
  for cex in cexs[:2]:
    bad, detail = replay_nonce_check(check)
    rec.replayed()
    rec.violation('ecdsa_sig_checks.%s.Check' % check, 'unverifiable_log',
                  detail, cex, dict(module='harness.props.c02',
                                    function='replay_nonce_check_cmd',
                                    args=dict(check=check)), bad)


def replay_nonce_check(check):
  """Real check on signatures with a weak nonce (k < 2^128, 6 signatures): any
  signature marked weak carries a log that generates the issuer key."""
  import hashlib  # pylint: disable=g-import-not-at-top
  pb, ec_util, util, sigc, hnp, cr50 = _mods()
  pb2shim.use_fakes(False)
  pb = common.lib(fakes=False)
  c = ec_util.CURVE_FACTORY[2]
  n = int(c.n)
  d = 0x1234567890abcdef1234567890abcdef1234567890abcdef1234567890abcdef % n
  pk = c.Multiply(c.g, d)
  sigs = []
  for i in range(6):
    k = int.from_bytes(hashlib.sha256(b'k%d' % i).digest()[:16], 'big') | 1
    z = int.from_bytes(hashlib.sha256(b'm%d' % i).digest(), 'big')
    r = int(c.Multiply(c.g, k)[0]) % n
    s = pow(k, -1, n) * (z + r * d) % n
    sg = pb.ECDSASignature()
    sg.issuer_key_info.curve_type = 2
    sg.issuer_key_info.x = util.Int2Bytes(int(pk[0]))
    sg.issuer_key_info.y = util.Int2Bytes(int(pk[1]))
    sg.ecdsa_sig_info.r = util.Int2Bytes(r)
    sg.ecdsa_sig_info.s = util.Int2Bytes(s)
    sg.ecdsa_sig_info.message_hash = z.to_bytes(32, 'big')
    sigs.append(sg)
  owners = [(c, pk)] * len(sigs)
  # healthy signatures of other issuers on curves the check visits later
  for cid_o in [k_ for k_, v_ in ec_util.CURVE_FACTORY.items()
                if v_ is not None and k_ != 2][:3]:
    co = ec_util.CURVE_FACTORY[cid_o]
    no = int(co.n)
    do = int.from_bytes(hashlib.sha512(b'd%d' % cid_o).digest(), 'big') % no
    pko = co.Multiply(co.g, do)
    for i in range(3):
      k = int.from_bytes(hashlib.sha512(b'k%d_%d' % (cid_o, i)).digest() * 2,
                         'big') % no or 1
      z = int.from_bytes(hashlib.sha256(b'm%d_%d' % (cid_o, i)).digest(),
                         'big')
      zt = co.TransformOrderLen(z, 256)
      r = int(co.Multiply(co.g, k)[0]) % no
      s_ = pow(k, -1, no) * (zt + r * do) % no
      if not r or not s_:
        continue
      sg = pb.ECDSASignature()
      sg.issuer_key_info.curve_type = cid_o
      sg.issuer_key_info.x = util.Int2Bytes(int(pko[0]))
      sg.issuer_key_info.y = util.Int2Bytes(int(pko[1]))
      sg.ecdsa_sig_info.r = util.Int2Bytes(r)
      sg.ecdsa_sig_info.s = util.Int2Bytes(s_)
      sg.ecdsa_sig_info.message_hash = z.to_bytes(32, 'big')
      sigs.append(sg)
      owners.append((co, pko))
  try:
    getattr(sigc, check)().Check(sigs)
  except Exception as ex:  # pylint: disable=broad-except
    return True, 'raised %r' % (ex,)
  for sg, (co, pko) in zip(sigs, owners):
    ent = [r_ for r_ in sg.test_info.test_results if r_.test_name == check]
    if ent and ent[0].result:
      info = util.GetAttachedInfo(sg.test_info, 'DISCRETE_LOG')
      if info is None or co.Multiply(co.g, int(info.value, 16)) != pko:
        return True, 'signature on %s marked weak with log %r that does ' \
            'not generate its issuer key' % (co.name,
                                             info.value if info else None)
  return False, 'every flagged signature carries a verifiable key'


def replay_nonce_check_cmd(check):
  bad, detail = replay_nonce_check(check)
  print(detail)
  return bad


def extended_sound(rec, seed, curve_id, shape, negative):
  c10.extended(rec, seed, curve_id, shape, negative)


def jobs(tier, seed):
  thorough = tier == 'thorough'
  out = []
  for n in ([4, 9, 16] if not thorough else [1, 4, 9, 16, 30]):
    out.append(Job('batchdl_sound_n%d' % n, batch_dl_sound,
                   dict(q=251, n=n, L=1), timeout=3000, cost=n * 4))
  if thorough:
    out.append(Job('batchdl_sound_L2', batch_dl_sound, dict(q=251, n=2, L=2),
                   timeout=3000, cost=60))
  for md in ([2, 4] if not thorough else [2, 3, 4, 8]):
    out.append(Job('differences_sound_md%d' % md, differences_sound,
                   dict(q=65521, max_diff=md, with_history=False),
                   timeout=3000, cost=60))
  if thorough:
    out.append(Job('differences_sound_k3', differences_sound,
                   dict(q=65521, max_diff=2, with_history=False, nkeys=3),
                   timeout=3000, cost=300))
  # exact look-up table, keys close together: every relation text is true for
  # the key it is recorded for (shared with C10's completeness job)
  out.append(Job('differences_relation_L3_hist', c10.differences,
                 dict(q=65521, max_diff=2, L=3, with_history_list=True,
                      aspects=('relation',)),
                 timeout=3000, cost=300))
  out.append(Job('differences_relation_L3', c10.differences,
                 dict(q=65521, max_diff=3, L=3, with_history_list=False,
                      aspects=('relation',)),
                 timeout=3000, cost=100))
  if thorough:
    out.append(Job('differences_sound_hist_md2', differences_sound,
                   dict(q=65521, max_diff=2, with_history=True),
                   timeout=6000, cost=300))
  for ng in ([3, 300] if not thorough else [1, 3, 255, 256, 257, 300,
                                             600, 1000]):
    out.append(Job('issuer_dlogs_%d' % ng, issuer_dlogs, dict(nguesses=ng),
                   timeout=3000, cost=ng / 10.0))
  for check in ('CheckNonceMSB', 'CheckLCGNonceGMP', 'CheckCr50U2f'):
    for ns_ in ([1, 2] if not thorough else [1, 2, 3]):
      out.append(Job('nonce_sound_%s_%d' % (check, ns_), nonce_check_sound,
                     dict(check=check, nsigs=ns_), timeout=3000, cost=30))
    out.append(Job('nonce_sound_%s_mixed' % check, nonce_check_sound,
                   dict(check=check, nsigs=2, mixed=True), timeout=3000,
                   cost=40))
  for qb in ([2, 72] if not thorough else [2, 4, 5, 6, 72]):
    for shape in ('shift', 'repeat'):
      for neg in (False, True):
        out.append(Job('extended_q%d_%s%s' % (qb, shape, '_neg' if neg else
                                              ''), extended_sound,
                       dict(curve_id=qb, shape=shape, negative=neg),
                       timeout=3000, cost=40))
  return out
