"""C04 - close primes are always factored (Fermat clause; scaled equal-bits)."""
import z3

from harness import common
from harness import pysym
from harness import stubs
from harness.common import T, ivar, bvar, inputs_of
from harness.pysym import SInt
from harness.runner import Job

OUTSIDE = [
    'clauses 3 and 4 (q = next_prime(p + D) for the documented D, primes '
    'within a prime gap of an unseeded PRNG output): need next_prime, '
    '>= 384-bit primes and a float cube root - not encodable',
    'clause 2 at real sizes: with the default Fermat bound 100000 the '
    'disjunction "Fermat or equal-bits check" is trivially true for every '
    'modulus narrow enough to bit-blast; only a scaled variant (small Fermat '
    'bound, moduli up to 2*L2 bits) is decided',
    'Fermat step bounds above 64',
]
ASSUMPTIONS = [
    'primality of p, q is not assumed (the functions do not use it); for '
    'composite cofactors "factored" means some pair with product n and '
    '(x+y)/2 - ceil(sqrt n) below the bound is returned',
]


def _mods():
  common.lib()
  from paranoid_crypto.lib import rsa_util, ntheory_util  # pylint: disable=g-import-not-at-top
  return rsa_util, ntheory_util


def _lemma_sqrt_unique():
  """s,d >= 0, s^2 <= d^2 < (s+1)^2  =>  s == d   (schema, proved once)."""
  s, d = z3.Ints('ls ld')
  sol = z3.Solver()
  sol.set('timeout', 20000)
  sol.add(s >= 0, d >= 0, s * s <= d * d, d * d < (s + 1) * (s + 1), s != d)
  return str(sol.check())


def _lemma_monotone():
  """m, r >= 0, m^2 > r^2 => m > r."""
  m, r = z3.Ints('lm lr')
  sol = z3.Solver()
  sol.set('timeout', 20000)
  sol.add(m >= 0, r >= 0, m * m > r * r, m <= r)
  return str(sol.check())


def fermat_completeness(rec, seed, K, j):
  """All odd n = m^2 - d^2 with m = ceil(sqrt n) + j (j < K concrete).

  Parametrisation: r0 = isqrt(n) is an input, m := r0 + 1 + j is a term, d is
  an input, n := m^2 - d^2 is a term, constrained by r0^2 < n < (r0+1)^2 (the
  isqrt contract, so the function's isqrt(n) stub is pre-seeded with r0).
  j = -1 stands for the perfect-square shortcut (n = r0^2, d = 0).
  Obligation: every feasible path returns a pair, at a step <= j.
  """
  rsa_util, _ = _mods()
  rec.functions('paranoid_crypto.lib.rsa_util:FermatFactor')
  rec.bounds('every odd n = m^2 - d^2 >= 2^63, d >= 0, m - d >= 2, with '
             '(p+q)/2 - ceil(sqrt n) = %d exactly (unbounded Int); '
             'max_steps = %d' % (j, K))
  rec.hint('isqrt uniqueness lemma (s^2 <= d^2 < (s+1)^2 => s = d), proved as '
           'a schema and instantiated at the isqrt result of each step')
  l1 = _lemma_sqrt_unique()
  if l1 == 'unsat':
    rec.obligation('proved')
  else:
    rec.obligation('unknown', 'lemma sqrt_unique: %s' % l1)
    return
  cexs = []
  reach = {}

  def run(e):
    r0 = ivar(e, 'r0', lo=2**31)
    d = ivar(e, 'd', lo=0)
    if j >= 0:
      m = r0 + 1 + j
      n = m * m - d * d
      e.assume(T(n) > r0.t * r0.t)
      e.assume(T(n) < (r0.t + 1) * (r0.t + 1))
    else:
      m = r0
      e.assume(d.t == 0)
      n = m * m - d * d
    e.assume(T(m) - d.t >= 2)
    e.assume(T(n) >= 2**63)
    e.assume(T(n) % 2 == 1)
    e.notes.update(m=m, d=d, n=n, r0=r0)
    # the function's isqrt(n) is r0 by construction (contract holds)
    e.memo[('isqrt', T(n).get_id())] = (r0.t, T(n))
    return rsa_util.FermatFactor(n, K)

  with stubs.patched(rsa_util, gmpy=stubs.GMPY):
    for p in pysym.explore(run, feas_timeout_ms=1000):
      e = p.eng
      rec.path(p.kind)
      if p.kind == 'abort':
        rec.inconclusive('path aborted: %s' % p.value)
        continue
      m, d, n, r0 = (e.notes[k] for k in ('m', 'd', 'n', 'r0'))
      hints = []
      for key, val in list(e.memo.items()):
        if key[0] == 'isqrt':
          s_, x_ = val
          hints.append(z3.Implies(
              z3.And(s_ >= 0, d.t >= 0, s_ * s_ <= d.t * d.t,
                     d.t * d.t < (s_ + 1) * (s_ + 1)), s_ == d.t))
      if p.kind == 'raise' or p.value is None:
        # must be infeasible: the modulus is within the bound
        r, mdl, _ = e.check_sat(extra=hints, timeout_ms=60000)
        if r == 'unsat':
          rec.obligation('proved')
        elif r == 'unknown':
          rec.obligation('unknown', 'Fermat completeness K=%d j=%d' % (K, j))
        else:
          cexs.append(('returned %r although (p+q)/2 - ceil(sqrt n) = %d < %d'
                       % (p.value, j, K), inputs_of(e, mdl)))
        continue
      x, y = p.value
      # returned pair: product n, found at a step k' <= j (k' < K)
      a0 = r0.t + 1 if j >= 0 else r0.t
      goal = z3.And(T(x) * T(y) == T(n),
                    z3.Or([T(x) + T(y) == 2 * (a0 + i)
                           for i in range(max(j, 0) + 1)]))
      r, mdl, _ = e.prove(goal, hints=hints, timeout_ms=60000)
      if r == 'proved':
        rec.obligation('proved')
      elif r == 'unknown':
        rec.obligation('unknown', 'Fermat returned pair K=%d j=%d' % (K, j))
      else:
        cexs.append(('returned a wrong pair or skipped the step at which '
                     'a^2 - n = d^2', inputs_of(e, mdl)))
      if 'factors' not in reach:
        r, mdl, _ = e.check_sat(extra=hints, timeout_ms=20000)
        if r == 'sat':
          reach['factors'] = inputs_of(e, mdl)
          rec.sample(dict(kernel='FermatFactor', K=K, j=j,
                          witness=reach['factors']))
  rec.reach(1, len(reach))
  for what, cex in cexs[:3]:
    mm = cex['r0'] + 1 + j if j >= 0 else cex['r0']
    bad = replay_fermat(mm, cex['d'], K)
    rec.replayed()
    rec.violation('rsa_util.FermatFactor', 'completeness', what,
                  dict(cex, K=K, j=j),
                  dict(module='harness.props.c04', function='replay_fermat',
                       args=dict(m=str(mm), d=str(cex['d']), K=K)), bad)


def fermat_none_beyond(rec, seed, K):
  """Converse at the boundary: with (p+q)/2 - ceil(sqrt n) = K exactly and n a
  product of ... (no closer pair can be excluded without primality), only the
  structural part is decided: any returned pair was found at a step < K."""
  rsa_util, _ = _mods()
  rec.functions('paranoid_crypto.lib.rsa_util:FermatFactor')
  rec.bounds('every odd non-square n >= 2^63 (unbounded Int); max_steps = %d: '
             'a returned pair (x, y) has x*y = n and (x+y)/2 - ceil(sqrt n) '
             'in [0, %d)' % (K, K))
  cexs = []
  reach = {}

  def run(e):
    r0 = ivar(e, 'r0', lo=2**31)
    t = ivar(e, 't', lo=1)
    e.assume(t.t <= 2 * r0.t)
    n = r0 * r0 + t
    e.assume(T(n) >= 2**63)
    e.assume(T(n) % 2 == 1)
    e.notes.update(n=n, r0=r0)
    e.memo[('isqrt', T(n).get_id())] = (r0.t, T(n))
    return rsa_util.FermatFactor(n, K)

  with stubs.patched(rsa_util, gmpy=stubs.GMPY):
    for p in pysym.explore(run, feas_timeout_ms=1000):
      e = p.eng
      rec.path(p.kind)
      if p.kind == 'abort':
        rec.inconclusive('path aborted: %s' % p.value)
        continue
      if p.kind == 'raise':
        continue
      n, r0 = e.notes['n'], e.notes['r0']
      if p.value is None:
        cls = 'none'
      else:
        cls = 'factors'
        x, y = p.value
        goal = z3.And(T(x) * T(y) == T(n),
                      z3.Or([T(x) + T(y) == 2 * (r0.t + 1 + i)
                             for i in range(K)]) if K else z3.BoolVal(False))
        r, mdl, _ = e.prove(goal, timeout_ms=60000)
        if r == 'proved':
          rec.obligation('proved')
        elif r == 'unknown':
          rec.obligation('unknown', 'Fermat converse K=%d' % K)
        else:
          cexs.append(('pair outside the step bound', inputs_of(e, mdl)))
      if cls not in reach:
        r, mdl = e.feasible()
        if r == 'sat':
          reach[cls] = inputs_of(e, mdl)
  rec.reach(2 if K else 1, len(reach))
  for what, cex in cexs[:3]:
    nn = cex['r0']**2 + cex['t']
    res = rsa_util.FermatFactor(nn, K)
    bad = res is not None and (res[0] * res[1] != nn or not (
        0 <= (res[0] + res[1]) // 2 - cex['r0'] - 1 < K))
    rec.replayed()
    rec.violation('rsa_util.FermatFactor', 'converse', what, dict(cex, K=K),
                  dict(module='harness.props.c04', function='replay_converse',
                       args=dict(r0=str(cex['r0']), t=str(cex['t']), K=K)),
                  bad)


def replay_converse(r0, t, K):
  rsa_util, _ = _mods()
  r0, t, K = int(r0), int(t), int(K)
  nn = r0 * r0 + t
  res = rsa_util.FermatFactor(nn, K)
  print('n=%d K=%d result=%r' % (nn, K, res))
  return res is not None and (res[0] * res[1] != nn or not (
      0 <= (res[0] + res[1]) // 2 - r0 - 1 < K))


def replay_fermat(m, d, K):
  import gmpy2  # pylint: disable=g-import-not-at-top
  rsa_util, _ = _mods()
  m, d, K = int(m), int(d), int(K)
  n = m * m - d * d
  r = int(gmpy2.isqrt(n))
  a0 = r if r * r == n else r + 1
  res = rsa_util.FermatFactor(n, K)
  print('n=%d  (p+q)/2-ceil(sqrt n)=%d  K=%d  result=%r' % (n, m - a0, K, res))
  if res is None:
    return m - a0 < K
  x, y = int(res[0]), int(res[1])
  if x * y != n:
    return True
  k = (x + y) // 2 - a0
  return not (0 <= k < max(K, 1)) or (x + y) > 2 * m


# ---------------------------------------------------------------------------
# scaled equal-bits clause on bit-vectors


def highlow_scaled(rec, seed, L2, Kf):
  """For all odd p, q of L2 bits sharing r low and s high bits with r >= 3 and
  4(r+s) >= L + 8:  FermatFactor(n, Kf) or FactorHighAndLowBitsEqual(n)
  returns {p, q} (Kf: scaled stand-in for the default 100000)."""
  rsa_util, ntheory_util = _mods()
  rec.functions('paranoid_crypto.lib.rsa_util:FactorHighAndLowBitsEqual',
                'paranoid_crypto.lib.rsa_util:FermatFactor',
                'paranoid_crypto.lib.ntheory_util:InverseSqrt2exp',
                'paranoid_crypto.lib.ntheory_util:Inverse2exp')
  rec.bounds('all odd p <= q of exactly %d bits with equal r low / s high '
             'bits, r >= 3, 4(r+s) >= bitlen(n) + 8; Fermat bound scaled to %d'
             % (L2, Kf))
  width = 5 * L2 + 10
  cexs = []
  reach = {}

  def run(e):
    p = bvar(e, 'p', width, lo=2**(L2 - 1), hi=2**L2)
    q = bvar(e, 'q', width, lo=2**(L2 - 1), hi=2**L2)
    e.assume(z3.Extract(0, 0, p.t) == 1)
    e.assume(z3.Extract(0, 0, q.t) == 1)
    e.assume(p.t <= q.t)
    n = p * q
    L = n.bit_length()
    # precondition: exists r >= 3, s >= 0 (shared low/high bits)
    alts = []
    for r in range(3, L2 + 1):
      for s in range(0, L2 + 1):
        if 4 * (r + s) >= L + 8:
          lo_eq = z3.Extract(r - 1, 0, p.t) == z3.Extract(r - 1, 0, q.t)
          hi_eq = z3.BoolVal(True) if s == 0 else (
              z3.Extract(L2 - 1, L2 - s, p.t) == z3.Extract(
                  L2 - 1, L2 - s, q.t))
          alts.append(z3.And(lo_eq, hi_eq))
    e.assume(z3.Or(alts) if alts else z3.BoolVal(False))
    e.notes.update(p=p, q=q, n=n)
    f = rsa_util.FermatFactor(n, Kf)
    if f is not None:
      return ('fermat', list(f))
    g = rsa_util.FactorHighAndLowBitsEqual(n)
    return ('highlow', g)

  with stubs.patched(rsa_util, gmpy=stubs.GMPY), \
      stubs.patched(ntheory_util, gmpy=stubs.GMPY):
    for pth in pysym.explore(run, max_paths=100000):
      e = pth.eng
      rec.path(pth.kind)
      if pth.kind == 'abort':
        rec.inconclusive('path aborted: %s' % pth.value)
        continue
      if pth.kind == 'raise':
        r, mdl = e.feasible()
        if r == 'sat':
          cexs.append(('raised %r' % (pth.value,), inputs_of(e, mdl)))
        elif r != 'unsat':
          rec.inconclusive('exception path undecided')
        continue
      if not common.overflow_free(rec, e, 'highlow_scaled'):
        continue
      which, f = pth.value
      if f is None:
        # must be infeasible
        r, mdl = e.feasible()
        if r == 'unsat':
          rec.obligation('proved')
        elif r == 'sat':
          cexs.append(('neither check factors n', inputs_of(e, mdl)))
        else:
          rec.obligation('unknown', 'highlow_scaled None path')
        continue
      cls = which
      if cls not in reach:
        r, mdl = e.feasible()
        if r == 'sat':
          reach[cls] = inputs_of(e, mdl)
          rec.sample(dict(L2=L2, cls=cls, witness=reach[cls]))
  rec.reach(2, len(reach))
  for what, cex in cexs[:3]:
    bad = replay_highlow(cex['p'], cex['q'], Kf)
    rec.replayed()
    rec.violation('rsa_util.FactorHighAndLowBitsEqual', 'completeness_scaled',
                  what, dict(cex, Kf=Kf),
                  dict(module='harness.props.c04', function='replay_highlow',
                       args=dict(p=cex['p'], q=cex['q'], Kf=Kf)), bad)


def replay_highlow(p, q, Kf):
  rsa_util, _ = _mods()
  p, q, Kf = int(p), int(q), int(Kf)
  n = p * q
  try:
    f = rsa_util.FermatFactor(n, Kf)
    g = rsa_util.FactorHighAndLowBitsEqual(n)
  except Exception as ex:  # pylint: disable=broad-except
    print('raised', repr(ex))
    return True
  print('p=%d q=%d fermat=%r highlow=%r' % (p, q, f, g))
  return f is None and g is None


def unseeded_variants(rec, seed):
  """Clause 4, plumbing part: for every listed unseeded output p_0 the check
  tries p_0, p_0 | 2^(psize-1) and p_0 | 2^(psize-1) | 2^(psize-2) until one
  factors (the factoring kernel itself is outside)."""
  import contextlib  # pylint: disable=g-import-not-at-top
  from harness import checklevel as cl  # pylint: disable=g-import-not-at-top
  pb, rsc, rsa_util2, scf, util, roca = cl.mods()
  rec.functions('paranoid_crypto.lib.rsa_single_checks:CheckUnseededRand.Check')
  rec.bounds('one key, modulus in [2^63, 2^65) symbolic; Storage returns one '
             'arbitrary candidate; FactorWithGuess = memoised contract stub')
  chk = rsc.CheckUnseededRand(cl.FakeStorage())
  cexs = []
  reach = 0

  def run(e):
    n = ivar(e, 'n', lo=2**63, hi=2**65)
    k = pb.RSAKey()
    k.rsa_info.n = n
    e.notes.update(n=n, key=k)
    att = cl.Attach()
    with stubs.patched(util, AttachFactors=att):
      return chk.Check([k])

  with contextlib.ExitStack() as st:
    for mod, names in cl.patches(rsc, rsa_util2, scf, util, chk):
      st.enter_context(stubs.patched(mod, **names))
    for p in pysym.explore(run, max_paths=500):
      e = p.eng
      rec.path(p.kind)
      if p.kind != 'return':
        r, m = e.feasible()
        if r != 'unsat':
          rec.inconclusive('unexpected %s %r' % (p.kind, p.value))
        continue
      calls = [x for x in e.log if x[0] == 'kernel' and
               x[1] == 'FactorWithGuess']
      if any(x[3]['cls'] != 0 for x in calls):
        continue  # a guess factored: the search may stop
      n = e.notes['n']
      psize = (n.bit_length() + 1) // 2
      cands = e.memo.get(('storage', psize), [])
      # the list is asked for the prime size of this modulus, (bits + 1) // 2
      asked = [key[1] for key in e.memo
               if isinstance(key, tuple) and len(key) == 2 and
               key[0] == 'storage' and isinstance(key[1], int)]
      if asked == [psize]:
        rec.obligation('proved')
      else:
        r, m = e.feasible()
        if r == 'sat':
          cexs.append(inputs_of(e, m))
        elif r != 'unsat':
          rec.inconclusive('size path undecided')
      msb1 = 2**(psize - 1)
      msb11 = msb1 | 2**(psize - 2)
      for c in cands:
        for want in (c, c | msb1, c | msb11):
          goal = z3.Or([z3.And(T(x[2][0]) == n.t, T(x[2][1]) == T(want))
                        for x in calls]) if calls else z3.BoolVal(False)
          r, m, _ = e.prove(goal)
          if r == 'proved':
            rec.obligation('proved')
          elif r == 'unknown':
            rec.obligation('unknown', 'unseeded variants')
          else:
            cexs.append(inputs_of(e, m))
      if reach == 0 and cands:
        reach = 1
        rec.sample(dict(check='CheckUnseededRand', guesses_tried=len(calls)))
  rec.reach(1, reach)
  if cexs:
    bad = replay_unseeded()
    rec.replayed()
    rec.violation('rsa_single_checks.CheckUnseededRand.Check',
                  'guess_variants',
                  'a top-bit variant of a listed unseeded output is not tried',
                  cexs[0], dict(module='harness.props.c04',
                                function='replay_unseeded', args={}), bad)


def replay_unseeded():
  """Real check, real protobufs, user-supplied Storage with one candidate per
  top-bit class; the key is built so that exactly one variant factors it."""
  import gmpy2  # pylint: disable=g-import-not-at-top
  from harness import pb2shim  # pylint: disable=g-import-not-at-top
  pb = common.lib(fakes=False)
  pb2shim.use_fakes(False)
  from paranoid_crypto.lib import rsa_single_checks as rsc  # pylint: disable=g-import-not-at-top
  from paranoid_crypto.lib import util  # pylint: disable=g-import-not-at-top
  from paranoid_crypto.lib.data import storage  # pylint: disable=g-import-not-at-top
  bad = False
  psize = 512
  for top in (0b00, 0b01, 0b10):
    for variant in (0, 1, 2):
      base = (top << (psize - 2)) | (0x1234567 << 300) | 0xabcdef
      guess = [base, base | 2**(psize - 1),
               base | 2**(psize - 1) | 2**(psize - 2)][variant]
      p = int(gmpy2.next_prime(guess))
      # a cofactor for which the exact guess factors n but the listed value
      # itself (without the top bits) does not
      from paranoid_crypto.lib import special_case_factoring as scf0  # pylint: disable=g-import-not-at-top
      q = None
      for t in range(1, 40):
        qc = int(gmpy2.next_prime(2**(psize - 1) + t * 0x9E3779B97F4A7C15 *
                                  2**300 + t))
        nc = p * qc
        if (nc.bit_length() + 1) // 2 != psize:
          continue
        if scf0.FactorWithGuess(nc, guess) and (
            variant == 0 or not scf0.FactorWithGuess(nc, base)):
          q = qc
          break
      if q is None:
        continue
      n = p * q
      if (n.bit_length() + 1) // 2 != psize:
        continue

      class St(storage.Storage):

        def GetUnseededRands(self, size, base=base):
          return {base} if size == psize else set()

        def GetKeypairData(self):
          return None

        def GetOpensslDenylist(self):
          return set()

      from paranoid_crypto.lib import special_case_factoring as scf  # pylint: disable=g-import-not-at-top
      if not scf.FactorWithGuess(n, guess):
        continue  # kernel limitation, not plumbing
      k = pb.RSAKey()
      k.rsa_info.n = util.Int2Bytes(n)
      ok = rsc.CheckUnseededRand(St()).Check([k])
      if not ok:
        print('top bits %s variant %d: not factored' % (bin(top), variant))
        bad = True
  return bad


def jobs(tier, seed):
  thorough = tier == 'thorough'
  out = []
  K = 8 if not thorough else 24
  for j in range(-1, K):
    out.append(Job('fermat_complete_K%d_j%d' % (K, j), fermat_completeness,
                   dict(K=K, j=j), timeout=3000 if thorough else 400,
                   cost=j + 2))
  # the bound itself: j = K-1 is the last step that must succeed for any K
  for K2 in ([1, 2, 3, 4] if not thorough else [1, 2, 3, 4, 5, 6, 12, 16]):
    out.append(Job('fermat_complete_K%d_last' % K2, fermat_completeness,
                   dict(K=K2, j=K2 - 1), timeout=3000 if thorough else 400,
                   cost=K2 + 1))
  out.append(Job('unseeded_variants', unseeded_variants, {}, timeout=900,
                 cost=5))
  for K3 in ([0, 1, 4, 8] if not thorough else [0, 1, 4, 8, 16, 32]):
    out.append(Job('fermat_converse_K%d' % K3, fermat_none_beyond,
                   dict(K=K3), timeout=3000 if thorough else 400, cost=K3 + 1))
  return out
