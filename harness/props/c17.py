"""C17 - a verdict does not depend on batch neighbours, order or history."""
from harness import checklevel
from harness.runner import Job

OUTSIDE = [
    'EC aggregate (small difference) check in relational form; ECDSA '
    'signature checks only as one signature per curve on two curves',
    'real-kernel cross-talk inside fpylll / gmpy2',
    'batches larger than 2 (3 for the aggregate plumbing)',
    'CheckOpensslDenylist in relational form (its criterion is C06); '
    'CheckKeypairDenylist runs with a symbolic table key and a generator '
    'stub that is a function of (seed, size)',
]
ASSUMPTIONS = [
    'numeric kernels are deterministic functions of their arguments '
    '(memoised contract stubs); their own correctness is C01/C02/C06',
]


def ec_relational(rec, seed, check, cids):
  """EC single checks on [k1, k2], [k2], [k2, k1] (same check object, fresh
  messages with the same symbolic coordinates): the entry, weak flag and
  attached evidence of a key are the same in every batch and position."""
  import z3  # pylint: disable=g-import-not-at-top
  from harness import common, pysym, stubs  # pylint: disable=g-import-not-at-top
  from harness.common import ivar, inputs_of, T  # pylint: disable=g-import-not-at-top
  from harness.props import c18  # pylint: disable=g-import-not-at-top
  m = c18._mods()
  pb, ec_util, util, ecs = m['pb'], m['ec_util'], m['util'], m['ecs']
  rec.functions('paranoid_crypto.lib.ec_single_checks:%s.Check' % check,
                'paranoid_crypto.lib.util:SetTestResult')
  rec.bounds('two keys on curve identifiers %r, coordinates symbolic in '
             '[0, 2^530); batches [k1, k2], [k2], [k2, k1] through one check '
             'object; ExtendedBatchDL = arbitrary but the same for the same '
             'point' % (cids,))
  cexs = []
  reach = 0

  def dl_stub(self, points):
    stubs.USED.add('EcCurve.ExtendedBatchDL: None / arbitrary integer per '
                   'point, a function of (curve, point)')
    e = pysym.eng()
    out = []
    for pt in points:
      key = ('dl', self.name, tuple(
          T(c).get_id() if pysym.is_sym(c) else c for c in pt)
             if isinstance(pt, tuple) else pt)
      if key not in e.memo:
        found = e.fresh('dl_found', 'bool')
        e.memo[key] = (found, pysym.SInt(e.fresh('dl')), pt)
      found, val, _ = e.memo[key]
      out.append(val if e.decide(found) else None)
    return out

  def run(e):
    chk = getattr(ecs, check)()
    xs = [ivar(e, 'x%d' % i, lo=0, hi=2**530) for i in range(2)]
    ys = [ivar(e, 'y%d' % i, lo=0, hi=2**530) for i in range(2)]

    def key(i):
      k = pb.ECKey()
      k.ec_info.curve_type = cids[i]
      k.ec_info.x, k.ec_info.y = xs[i], ys[i]
      return k

    A, B, C = [key(0), key(1)], [key(1)], [key(1), key(0)]
    att = []
    e.notes.update(A=A, B=B, C=C, att=att)
    with stubs.patched(util, AttachInfo=lambda ti, nm, v: att.append(
        (ti, nm, v))):
      return [chk.Check(x) for x in (A, B, C)]

  with stubs.patched(util, Bytes2Int=lambda b_: b_), \
      stubs.patched(ec_util, gmpy=stubs.GMPY), \
      stubs.patched(ecs, logging=common.QUIET, format=lambda v, s_: v,
                    int=stubs.sym_int), \
      c18.checklevel_attr(ec_util.EcCurve, 'ExtendedBatchDL', dl_stub):
    for p in pysym.explore(run, max_paths=3000, feas_timeout_ms=500):
      e = p.eng
      rec.path(p.kind)
      if p.kind != 'return':
        continue  # totality is C18
      A, B, C, att = (e.notes[k_] for k_ in ('A', 'B', 'C', 'att'))

      def view(k):
        ents = [r for r in k.test_info.test_results if r.test_name == check]
        infos = [(nm, v) for ti, nm, v in att if ti is k.test_info]
        return ents, infos, k.test_info.weak

      goals = []
      for group in ([A[1], B[0], C[0]], [A[0], C[1]]):
        v0 = view(group[0])
        for other in group[1:]:
          v1 = view(other)
          goals.append(('same_entry_count', z3.BoolVal(
              len(v0[0]) == len(v1[0]) <= 1 and len(v0[1]) == len(v1[1]))))
          if len(v0[0]) == len(v1[0]) == 1:
            goals.append(('same_verdict', z3.And(
                checklevel.b(v0[0][0].result) == checklevel.b(v1[0][0].result),
                T(v0[0][0].severity) == T(v1[0][0].severity),
                checklevel.b(v0[2]) == checklevel.b(v1[2]))))
          for (na, va), (nb, vb) in zip(v0[1], v1[1]):
            same = na == nb
            if pysym.is_sym(va) or pysym.is_sym(vb):
              goals.append(('same_evidence', z3.And(z3.BoolVal(same),
                                                    T(va) == T(vb))))
            else:
              goals.append(('same_evidence', z3.BoolVal(same and va == vb)))
      rets = p.value
      goals.append(('return_is_or', z3.And(
          checklevel.b(rets[0]) == checklevel.b(rets[2]),
          z3.Implies(checklevel.b(rets[1]), checklevel.b(rets[0])))))
      for name, g in goals:
        g = z3.simplify(g)
        if z3.is_true(g):
          rec.obligation('proved')
          continue
        r, mdl, _ = e.prove(g, timeout_ms=30000, use_defs=False)
        if r == 'proved':
          rec.obligation('proved')
        elif r == 'unknown':
          rec.obligation('unknown', '%s %s' % (check, name))
        else:
          cexs.append((name, inputs_of(e, mdl)))
      if not reach:
        reach = 1
        rec.sample(dict(check=check, curves=list(cids)))
  rec.reach(1, reach)
  if cexs:
    probs = ec_oracle(check)
    rec.replayed()
    names = sorted({c[0] for c in cexs})
    rec.violation('ec_single_checks.%s.Check' % check, names[0],
                  '%s; concrete differential oracle: %s' %
                  (', '.join(names), probs[:2] if probs else
                   'no concrete witness found'), cexs[0][1],
                  dict(module='harness.props.c17', function='replay_ec_oracle',
                       args=dict(check=check)), bool(probs))


def ec_oracle(check):
  """Real check, real protobufs: every key of a pool alone and in ordered
  pairs (one check object), entries and evidence compared."""
  import itertools  # pylint: disable=g-import-not-at-top
  from harness import common, pb2shim  # pylint: disable=g-import-not-at-top
  pb = common.lib(fakes=False)
  pb2shim.use_fakes(False)
  from paranoid_crypto.lib import ec_single_checks as ecs  # pylint: disable=g-import-not-at-top
  from paranoid_crypto.lib import ec_util, util  # pylint: disable=g-import-not-at-top
  pool = []
  for cid in (2, 5):
    c = ec_util.CURVE_FACTORY[cid]
    for d in (5, 2**40 + 1, int(c.n) - 3, 0x1234567890abcdef1234567890abcdef):
      pt = c.Multiply(c.g, d)
      pool.append((cid, int(pt[0]), int(pt[1])))
    pool.append((cid, int(c.g[0]), int(c.g[1]) + 1))   # off curve
  pool.append((0, 1, 2))
  pool.append((7, 1, 2))
  c1 = ec_util.CURVE_FACTORY[1] if 1 in ec_util.CURVE_FACTORY else None
  if c1 is not None:
    pool.append((1, int(c1.g[0]), int(c1.g[1])))

  def mk(t):
    k = pb.ECKey()
    k.ec_info.curve_type = t[0]
    k.ec_info.x = util.Int2Bytes(t[1])
    k.ec_info.y = util.Int2Bytes(t[2])
    return k

  def summary(k):
    return ([(r.test_name, r.result, r.severity)
             for r in k.test_info.test_results],
            sorted((i.info_name, i.value) for i in k.test_info.attached_info)
            if hasattr(k.test_info, 'attached_info') else None,
            k.test_info.weak)

  chk = getattr(ecs, check)()
  problems = []
  alone = {}
  for t in pool:
    k = mk(t)
    try:
      chk.Check([k])
    except Exception as ex:  # pylint: disable=broad-except
      problems.append('%s raised on %r: %r' % (check, t[:1], ex))
      continue
    alone[t] = summary(k)
  for a, b_ in itertools.permutations(pool, 2):
    if a not in alone or b_ not in alone:
      continue
    ka, kb = mk(a), mk(b_)
    try:
      chk.Check([ka, kb])
    except Exception as ex:  # pylint: disable=broad-except
      problems.append('%s raised on a pair: %r' % (check, ex))
      continue
    for t, k in ((a, ka), (b_, kb)):
      if summary(k) != alone[t]:
        problems.append('%s: key on curve %d in a batch with curve %d -> %r, '
                        'alone -> %r' % (check, t[0], (b_ if t is a else a)[0],
                                         summary(k), alone[t]))
    if len(problems) > 4:
      break
  return problems


def replay_ec_oracle(check):
  probs = ec_oracle(check)
  for p_ in probs:
    print(p_)
  return bool(probs)


def ecdsa_relational(rec, seed, check):
  """A signature on a later-visited curve has the same entry and evidence
  alone, after and before a signature of another issuer on an
  earlier-visited curve (fresh check object for every batch)."""
  import z3  # pylint: disable=g-import-not-at-top
  from harness import common, pysym, stubs  # pylint: disable=g-import-not-at-top
  from harness.common import ivar, inputs_of, T  # pylint: disable=g-import-not-at-top
  from harness.props import c02, c18  # pylint: disable=g-import-not-at-top
  pb, ec_util, util, sigc, hnp, cr50 = c02._mods()
  cid = 2
  later = [k for k, v in ec_util.CURVE_FACTORY.items() if v is not None]
  cid2 = later[later.index(cid) + 1]
  name2 = ec_util.CURVE_FACTORY[cid2].name
  n1 = int(ec_util.CURVE_FACTORY[cid].n)
  n2 = int(ec_util.CURVE_FACTORY[cid2].n)
  rec.functions('paranoid_crypto.lib.ecdsa_sig_checks:%s.Check' % check,
                'paranoid_crypto.lib.ecdsa_sig_checks:_IssuerDLogs')
  rec.bounds('signature S1 on secp256r1 and S2 of another issuer on %s '
             '(symbolic key points, s, hash); batches [S1, S2], [S2], '
             '[S2, S1], each on a fresh check object; lattice reduction / '
             'guess producers arbitrary but functions of their input; '
             'BatchMultiplyG uninterpreted per curve' % name2)
  MulG = {False: (z3.Function('MulGx', z3.IntSort(), z3.IntSort()),
                  z3.Function('MulGy', z3.IntSort(), z3.IntSort())),
          True: (z3.Function('MulG2x', z3.IntSort(), z3.IntSort()),
                 z3.Function('MulG2y', z3.IntSort(), z3.IntSort()))}
  cexs = []
  reach = 0

  def _key(x):
    if isinstance(x, (list, tuple)):
      return tuple(_key(y) for y in x)
    if pysym.is_sym(x):
      return ('t', T(x).get_id())
    return ('v', x)

  def reduce_stub(lat):
    e = pysym.eng()
    key = ('lll', _key(lat))
    if key not in e.memo:
      e.memo[key] = ([pysym.SInt(e.fresh('lll')) for _ in range(len(lat[0]))],
                     lat)
    return [list(e.memo[key][0])]

  def mulg(self, scalars):
    fx, fy = MulG[self.name == name2]
    return [(pysym._wrap_int(fx(T(s_))), pysym._wrap_int(fy(T(s_))))
            for s_ in scalars]

  def hnp_curve(a, b_, curve_type, lcg, flags):
    e = pysym.eng()
    key = ('hnp', _key(a), _key(b_), curve_type, _key(lcg), _key(flags))
    if key not in e.memo:
      e.memo[key] = (pysym.SInt(e.fresh('guess')), (a, b_))
    return [e.memo[key][0]]

  def run(e):
    kx, ky = ivar(e, 'kx', lo=0), ivar(e, 'ky', lo=0)
    k2x, k2y = ivar(e, 'k2x', lo=0), ivar(e, 'k2y', lo=0)
    s1, s2 = ivar(e, 's1', lo=1, hi=n1), ivar(e, 's2', lo=1, hi=n2)
    h1 = ivar(e, 'h1', lo=0, hi=2**256)
    h2 = ivar(e, 'h2', lo=0, hi=2**256)

    def sig(which):
      s = pb.ECDSASignature()
      if which == 1:
        s.issuer_key_info.curve_type = cid
        s.issuer_key_info.x, s.issuer_key_info.y = kx, ky
        s.ecdsa_sig_info.r = 1000
        s.ecdsa_sig_info.s = s1
        s.ecdsa_sig_info.message_hash = c18.HashVal(h1, 32)
      else:
        s.issuer_key_info.curve_type = cid2
        s.issuer_key_info.x, s.issuer_key_info.y = k2x, k2y
        s.ecdsa_sig_info.r = 2000
        s.ecdsa_sig_info.s = s2
        s.ecdsa_sig_info.message_hash = c18.HashVal(h2, 32)
      return s

    X, Y, Z = [sig(1), sig(2)], [sig(2)], [sig(2), sig(1)]
    att = []
    e.notes.update(X=X, Y=Y, Z=Z, att=att)
    with stubs.patched(util, AttachInfo=lambda ti, nm, v: att.append(
        (ti, nm, v))):
      return [getattr(sigc, check)().Check(x) for x in (X, Y, Z)]

  with stubs.patched(util, Bytes2Int=c18._b2i), \
      stubs.patched(ec_util, gmpy=stubs.GMPY), \
      stubs.patched(hnp, gmpy=stubs.GMPY, int=stubs.sym_int,
                    lll=type('L', (), dict(reduce=staticmethod(reduce_stub))),
                    HiddenNumberProblemForCurve=hnp_curve), \
      stubs.patched(cr50, gmpy=stubs.GMPY, int=stubs.sym_int, abs=abs,
                    lll=type('L', (), dict(reduce=staticmethod(reduce_stub)))), \
      stubs.patched(sigc, logging=common.QUIET, format=lambda v, s_: v,
                    int=stubs.sym_int), \
      c18.checklevel_attr(ec_util.EcCurve, 'BatchMultiplyG', mulg):
    for p in pysym.explore(run, max_paths=3000, feas_timeout_ms=1000):
      e = p.eng
      rec.path(p.kind)
      if p.kind != 'return':
        continue  # totality is C18
      X, Y, Z, att = (e.notes[k_] for k_ in ('X', 'Y', 'Z', 'att'))

      def view(sg):
        ents = [r for r in sg.test_info.test_results if r.test_name == check]
        infos = [(nm, v) for ti, nm, v in att if ti is sg.test_info]
        return ents, infos, sg.test_info.weak

      goals = []
      for group in ([Y[0], X[1], Z[0]], [X[0], Z[1]]):
        v0 = view(group[0])
        for other in group[1:]:
          v1 = view(other)
          if not (len(v0[0]) == len(v1[0]) == 1):
            goals.append(('same_entry_count', z3.BoolVal(False)))
            continue
          goals.append(('same_verdict', z3.And(
              checklevel.b(v0[0][0].result) == checklevel.b(v1[0][0].result),
              checklevel.b(v0[2]) == checklevel.b(v1[2]))))
          # evidence: the same (name, value) list whenever flagged
          if len(v0[1]) != len(v1[1]):
            goals.append(('same_evidence', z3.BoolVal(False)))
          for (na, va), (nb, vb) in zip(v0[1], v1[1]):
            goals.append(('same_evidence', z3.And(
                z3.BoolVal(na == nb), T(va) == T(vb)) if (
                    pysym.is_sym(va) or pysym.is_sym(vb)) else z3.BoolVal(
                        na == nb and va == vb)))
      for name, g in goals:
        g = z3.simplify(g)
        if z3.is_true(g):
          rec.obligation('proved')
          continue
        r, mdl, _ = e.prove(g, timeout_ms=60000)
        if r == 'proved':
          rec.obligation('proved')
        elif r == 'unknown':
          rec.obligation('unknown', '%s %s' % (check, name))
        else:
          cexs.append((name, {k_: str(v) for k_, v in
                              inputs_of(e, mdl).items()}))
      if not reach:
        reach = 1
        rec.sample(dict(check=check, curves=[cid, cid2]))
  rec.reach(1, reach)
  if cexs:
    probs = ecdsa_oracle(check)
    rec.replayed()
    names = sorted({c[0] for c in cexs})
    rec.violation('ecdsa_sig_checks.%s.Check' % check, names[0],
                  '%s; concrete differential oracle: %s' %
                  (', '.join(names), probs[:2] if probs else
                   'no concrete witness found'), cexs[0][1],
                  dict(module='harness.props.c17',
                       function='replay_ecdsa_oracle', args=dict(check=check)),
                  bool(probs))


def ecdsa_oracle(check):
  """Real check, real protobufs, real lattice code: one party using the same
  private scalar on secp256r1 (weak nonces of the kind the check targets) and
  on later-visited curves (full-entropy nonces); the healthy signatures alone
  vs inside the mixed batch, in both orders."""
  import hashlib  # pylint: disable=g-import-not-at-top
  import random  # pylint: disable=g-import-not-at-top
  from harness import common, pb2shim  # pylint: disable=g-import-not-at-top
  pb = common.lib(fakes=False)
  pb2shim.use_fakes(False)
  from paranoid_crypto.lib import paranoid  # pylint: disable=g-import-not-at-top,unused-import
  from paranoid_crypto.lib import ecdsa_sig_checks as sigc  # pylint: disable=g-import-not-at-top
  from paranoid_crypto.lib import ec_util, util  # pylint: disable=g-import-not-at-top
  rnd = random.Random(20240917)
  d = rnd.getrandbits(255) | (1 << 254)

  def sign(cid, k, msg):
    c = ec_util.CURVE_FACTORY[cid]
    n = int(c.n)
    digest = hashlib.sha256(msg).digest()
    z = c.TransformOrderLen(int.from_bytes(digest, 'big'), 256)
    r = int(c.Multiply(c.g, k)[0]) % n
    s = pow(k, -1, n) * (z + r * d) % n
    pub = c.Multiply(c.g, d % n)
    return (cid, r, s, digest, int(pub[0]), int(pub[1]))

  def mk(t):
    sg = pb.ECDSASignature()
    sg.issuer_key_info.curve_type = t[0]
    sg.ecdsa_sig_info.r = util.Int2Bytes(t[1])
    sg.ecdsa_sig_info.s = util.Int2Bytes(t[2])
    sg.ecdsa_sig_info.message_hash = t[3]
    sg.issuer_key_info.x = util.Int2Bytes(t[4])
    sg.issuer_key_info.y = util.Int2Bytes(t[5])
    return sg

  def verdict(sg):
    ents = [(r.result, r.severity) for r in sg.test_info.test_results
            if r.test_name == check]
    info = util.GetAttachedInfo(sg.test_info, 'DISCRETE_LOG')
    return ents, (info.value if info is not None else None), sg.test_info.weak

  if check == 'CheckCr50U2f':
    weak_k = lambda: sum((rnd.randrange(1, 256) * 0x01010101) << (32 * j)
                         for j in range(8))
    nweak = 2
  else:
    weak_k = lambda: rnd.getrandbits(120) | 1
    nweak = 8
  weak = [sign(2, weak_k(), b'weak-%d' % i) for i in range(nweak)]
  others = [k_ for k_, v in ec_util.CURVE_FACTORY.items()
            if v is not None and k_ != 2]
  others = others[others.index(3):][:2] if 3 in others else others[:2]
  problems = []
  for cid_o in others:
    n_o = int(ec_util.CURVE_FACTORY[cid_o].n)
    healthy = sign(cid_o, (rnd.getrandbits(n_o.bit_length() + 64) % (n_o - 1))
                   + 1, b'healthy')
    cls = getattr(sigc, check)
    alone = mk(healthy)
    try:
      cls().Check([alone])
      after = [mk(t) for t in weak] + [mk(healthy)]
      cls().Check(after)
      before = [mk(healthy)] + [mk(t) for t in weak]
      cls().Check(before)
    except Exception as ex:  # pylint: disable=broad-except
      problems.append('%s raised %r' % (check, ex))
      continue
    va, vb, vc = verdict(alone), verdict(after[-1]), verdict(before[0])
    if not va == vb == vc:
      problems.append('%s: healthy signature on curve %d alone %r, after the '
                      'secp256r1 signatures %r, before them %r' %
                      (check, cid_o, va, vb, vc))
  return problems


def replay_ecdsa_oracle(check):
  probs = ecdsa_oracle(check)
  for p_ in probs:
    print(p_)
  return bool(probs)


def jobs(tier, seed):
  out = checklevel.relational_jobs('C17', ('c17',), tier)
  for check in ('CheckCr50U2f', 'CheckNonceMSB', 'CheckLCGNonceGMP'):
    out.append(Job('ecdsa_%s' % check, ecdsa_relational, dict(check=check),
                   timeout=1800, cost=30))
  pairs = [(2, 2), (2, 5), (0, 2), (7, 2)] + (
      [(5, 2), (1, 2), (2, 0), (77, 2), (19, 19)] if tier == 'thorough'
      else [])
  for check in ('CheckValidECKey', 'CheckWeakCurve', 'CheckWeakECPrivateKey'):
    for cp in pairs:
      out.append(Job('ec_%s_c%d_%d' % (check, cp[0], cp[1]), ec_relational,
                     dict(check=check, cids=list(cp)), timeout=1800, cost=15))
  return out
