"""C17 - a verdict does not depend on batch neighbours, order or history."""
from harness import checklevel
from harness.runner import Job

OUTSIDE = [
    'real-kernel cross-talk inside fpylll / gmpy2',
    'batches larger than 2 (3 for the aggregate plumbing)',
    'CheckOpensslDenylist / CheckKeypairDenylist (string formatting / hash of '
    'the modulus cannot stay symbolic): covered only by the concrete '
    'differential oracle when a counterexample is replayed',
]
ASSUMPTIONS = [
    'numeric kernels are deterministic functions of their arguments '
    '(memoised contract stubs); their own correctness is C01/C02/C06',
]


def jobs(tier, seed):
  out = checklevel.relational_jobs('C17', ('c17',), tier)
  return out
