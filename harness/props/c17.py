"""C17 - a verdict does not depend on batch neighbours, order or history."""
from harness import checklevel
from harness.runner import Job

OUTSIDE = [
    'EC aggregate (small difference) and ECDSA signature checks in relational '
    'form (their soundness / totality are C02, C10, C18)',
    'real-kernel cross-talk inside fpylll / gmpy2',
    'batches larger than 2 (3 for the aggregate plumbing)',
    'CheckOpensslDenylist / CheckKeypairDenylist (string formatting / hash of '
    'the modulus cannot stay symbolic): covered only by the concrete '
    'differential oracle when a counterexample is replayed',
]
ASSUMPTIONS = [
    'numeric kernels are deterministic functions of their arguments '
    '(memoised contract stubs); their own correctness is C01/C02/C06',
]


def ec_relational(rec, seed, check, cids):
  """EC single checks on [k1, k2], [k2], [k2, k1] (same check object, fresh
  messages with the same symbolic coordinates): the entry, weak flag and
  attached evidence of a key are the same in every batch and position."""
  import z3  # pylint: disable=g-import-not-at-top
  from harness import common, pysym, stubs  # pylint: disable=g-import-not-at-top
  from harness.common import ivar, inputs_of, T  # pylint: disable=g-import-not-at-top
  from harness.props import c18  # pylint: disable=g-import-not-at-top
  m = c18._mods()
  pb, ec_util, util, ecs = m['pb'], m['ec_util'], m['util'], m['ecs']
  rec.functions('paranoid_crypto.lib.ec_single_checks:%s.Check' % check,
                'paranoid_crypto.lib.util:SetTestResult')
  rec.bounds('two keys on curve identifiers %r, coordinates symbolic in '
             '[0, 2^530); batches [k1, k2], [k2], [k2, k1] through one check '
             'object; ExtendedBatchDL = arbitrary but the same for the same '
             'point' % (cids,))
  cexs = []
  reach = 0

  def dl_stub(self, points):
    stubs.USED.add('EcCurve.ExtendedBatchDL: None / arbitrary integer per '
                   'point, a function of (curve, point)')
    e = pysym.eng()
    out = []
    for pt in points:
      key = ('dl', self.name, tuple(
          T(c).get_id() if pysym.is_sym(c) else c for c in pt)
             if isinstance(pt, tuple) else pt)
      if key not in e.memo:
        found = e.fresh('dl_found', 'bool')
        e.memo[key] = (found, pysym.SInt(e.fresh('dl')), pt)
      found, val, _ = e.memo[key]
      out.append(val if e.decide(found) else None)
    return out

  def run(e):
    chk = getattr(ecs, check)()
    xs = [ivar(e, 'x%d' % i, lo=0, hi=2**530) for i in range(2)]
    ys = [ivar(e, 'y%d' % i, lo=0, hi=2**530) for i in range(2)]

    def key(i):
      k = pb.ECKey()
      k.ec_info.curve_type = cids[i]
      k.ec_info.x, k.ec_info.y = xs[i], ys[i]
      return k

    A, B, C = [key(0), key(1)], [key(1)], [key(1), key(0)]
    att = []
    e.notes.update(A=A, B=B, C=C, att=att)
    with stubs.patched(util, AttachInfo=lambda ti, nm, v: att.append(
        (ti, nm, v))):
      return [chk.Check(x) for x in (A, B, C)]

  with stubs.patched(util, Bytes2Int=lambda b_: b_), \
      stubs.patched(ec_util, gmpy=stubs.GMPY), \
      stubs.patched(ecs, logging=common.QUIET, format=lambda v, s_: v,
                    int=stubs.sym_int), \
      c18.checklevel_attr(ec_util.EcCurve, 'ExtendedBatchDL', dl_stub):
    for p in pysym.explore(run, max_paths=3000, feas_timeout_ms=500):
      e = p.eng
      rec.path(p.kind)
      if p.kind != 'return':
        continue  # totality is C18
      A, B, C, att = (e.notes[k_] for k_ in ('A', 'B', 'C', 'att'))

      def view(k):
        ents = [r for r in k.test_info.test_results if r.test_name == check]
        infos = [(nm, v) for ti, nm, v in att if ti is k.test_info]
        return ents, infos, k.test_info.weak

      goals = []
      for group in ([A[1], B[0], C[0]], [A[0], C[1]]):
        v0 = view(group[0])
        for other in group[1:]:
          v1 = view(other)
          goals.append(('same_entry_count', z3.BoolVal(
              len(v0[0]) == len(v1[0]) <= 1 and len(v0[1]) == len(v1[1]))))
          if len(v0[0]) == len(v1[0]) == 1:
            goals.append(('same_verdict', z3.And(
                checklevel.b(v0[0][0].result) == checklevel.b(v1[0][0].result),
                T(v0[0][0].severity) == T(v1[0][0].severity),
                checklevel.b(v0[2]) == checklevel.b(v1[2]))))
          for (na, va), (nb, vb) in zip(v0[1], v1[1]):
            same = na == nb
            if pysym.is_sym(va) or pysym.is_sym(vb):
              goals.append(('same_evidence', z3.And(z3.BoolVal(same),
                                                    T(va) == T(vb))))
            else:
              goals.append(('same_evidence', z3.BoolVal(same and va == vb)))
      rets = p.value
      goals.append(('return_is_or', z3.And(
          checklevel.b(rets[0]) == checklevel.b(rets[2]),
          z3.Implies(checklevel.b(rets[1]), checklevel.b(rets[0])))))
      for name, g in goals:
        g = z3.simplify(g)
        if z3.is_true(g):
          rec.obligation('proved')
          continue
        r, mdl, _ = e.prove(g, timeout_ms=30000, use_defs=False)
        if r == 'proved':
          rec.obligation('proved')
        elif r == 'unknown':
          rec.obligation('unknown', '%s %s' % (check, name))
        else:
          cexs.append((name, inputs_of(e, mdl)))
      if not reach:
        reach = 1
        rec.sample(dict(check=check, curves=list(cids)))
  rec.reach(1, reach)
  if cexs:
    probs = ec_oracle(check)
    rec.replayed()
    names = sorted({c[0] for c in cexs})
    rec.violation('ec_single_checks.%s.Check' % check, names[0],
                  '%s; concrete differential oracle: %s' %
                  (', '.join(names), probs[:2] if probs else
                   'no concrete witness found'), cexs[0][1],
                  dict(module='harness.props.c17', function='replay_ec_oracle',
                       args=dict(check=check)), bool(probs))


def ec_oracle(check):
  """Real check, real protobufs: every key of a pool alone and in ordered
  pairs (one check object), entries and evidence compared."""
  import itertools  # pylint: disable=g-import-not-at-top
  from harness import common, pb2shim  # pylint: disable=g-import-not-at-top
  pb = common.lib(fakes=False)
  pb2shim.use_fakes(False)
  from paranoid_crypto.lib import ec_single_checks as ecs  # pylint: disable=g-import-not-at-top
  from paranoid_crypto.lib import ec_util, util  # pylint: disable=g-import-not-at-top
  pool = []
  for cid in (2, 5):
    c = ec_util.CURVE_FACTORY[cid]
    for d in (5, 2**40 + 1, int(c.n) - 3, 0x1234567890abcdef1234567890abcdef):
      pt = c.Multiply(c.g, d)
      pool.append((cid, int(pt[0]), int(pt[1])))
    pool.append((cid, int(c.g[0]), int(c.g[1]) + 1))   # off curve
  pool.append((0, 1, 2))
  pool.append((7, 1, 2))
  c1 = ec_util.CURVE_FACTORY[1] if 1 in ec_util.CURVE_FACTORY else None
  if c1 is not None:
    pool.append((1, int(c1.g[0]), int(c1.g[1])))

  def mk(t):
    k = pb.ECKey()
    k.ec_info.curve_type = t[0]
    k.ec_info.x = util.Int2Bytes(t[1])
    k.ec_info.y = util.Int2Bytes(t[2])
    return k

  def summary(k):
    return ([(r.test_name, r.result, r.severity)
             for r in k.test_info.test_results],
            sorted((i.info_name, i.value) for i in k.test_info.attached_info)
            if hasattr(k.test_info, 'attached_info') else None,
            k.test_info.weak)

  chk = getattr(ecs, check)()
  problems = []
  alone = {}
  for t in pool:
    k = mk(t)
    try:
      chk.Check([k])
    except Exception as ex:  # pylint: disable=broad-except
      problems.append('%s raised on %r: %r' % (check, t[:1], ex))
      continue
    alone[t] = summary(k)
  for a, b_ in itertools.permutations(pool, 2):
    if a not in alone or b_ not in alone:
      continue
    ka, kb = mk(a), mk(b_)
    try:
      chk.Check([ka, kb])
    except Exception as ex:  # pylint: disable=broad-except
      problems.append('%s raised on a pair: %r' % (check, ex))
      continue
    for t, k in ((a, ka), (b_, kb)):
      if summary(k) != alone[t]:
        problems.append('%s: key on curve %d in a batch with curve %d -> %r, '
                        'alone -> %r' % (check, t[0], (b_ if t is a else a)[0],
                                         summary(k), alone[t]))
    if len(problems) > 4:
      break
  return problems


def replay_ec_oracle(check):
  probs = ec_oracle(check)
  for p_ in probs:
    print(p_)
  return bool(probs)


def jobs(tier, seed):
  out = checklevel.relational_jobs('C17', ('c17',), tier)
  pairs = [(2, 2), (2, 5), (0, 2), (7, 2)] + (
      [(5, 2), (1, 2), (2, 0), (77, 2), (19, 19)] if tier == 'thorough'
      else [])
  for check in ('CheckValidECKey', 'CheckWeakCurve', 'CheckWeakECPrivateKey'):
    for cp in pairs:
      out.append(Job('ec_%s_c%d_%d' % (check, cp[0], cp[1]), ec_relational,
                     dict(check=check, cids=list(cp)), timeout=1800, cost=15))
  return out
