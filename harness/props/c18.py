"""C18 - checks are total on well-formed batches (no path raises)."""
import itertools

import z3

from harness import checklevel
from harness import common
from harness import pb2shim
from harness import pysym
from harness import stubs
from harness.common import T, ivar, boolvar, inputs_of
from harness.pysym import SInt
from harness.props import c01
from harness.runner import Job

OUTSIDE = [
    'real fpylll / lzma / hashlib internals (lattice reduction havocked)',
    'symbolic batches larger than 2 keys (RSA), 2 keys (EC), 3 signatures '
    '(ECDSA, up to 49 with concrete r values)',
    'CheckOpensslDenylist only on concrete boundary moduli; '
    'CheckKeypairDenylist with a symbolic table key and a generator stub',
    'CheckWeakECPrivateKey: ExtendedBatchDL replaced by its result contract',
]
ASSUMPTIONS = []


def _mods(fakes=True):
  pb = common.lib(fakes=fakes)
  pb2shim.use_fakes(fakes)
  from paranoid_crypto.lib import (ec_util, util, paranoid, ec_single_checks,  # pylint: disable=g-import-not-at-top
                                   ec_aggregate_checks, ecdsa_sig_checks,
                                   rsa_util, special_case_factoring)
  from paranoid_crypto.lib import hidden_number_problem as hnp  # pylint: disable=g-import-not-at-top
  from paranoid_crypto.lib import cr50_u2f_weakness as cr50  # pylint: disable=g-import-not-at-top
  return dict(pb=pb, ec_util=ec_util, util=util, paranoid=paranoid,
              ecs=ec_single_checks, eca=ec_aggregate_checks,
              sigc=ecdsa_sig_checks, rsa_util=rsa_util,
              scf=special_case_factoring, hnp=hnp, cr50=cr50)


# ---------------------------------------------------------------------------
# RSA kernels: no feasible exception path


def kernel_totality(rec, seed, which, params):
  c01.TOTALITY['on'] = True
  try:
    getattr(c01, which)(rec, seed, **params)
  finally:
    c01.TOTALITY['on'] = False


def replay_kernel(kernel, inputs):
  m = _mods(fakes=False)
  name = kernel.split('.')[-1]
  mod = m['scf'] if name == 'FactorWithGuess' else m['rsa_util']
  fn = getattr(mod, name)
  vals = {k: int(v) for k, v in inputs.items()}
  args = [vals.get('n')]
  for k in ('bound', 'p_0', 'm', 'gcd_bound', 'K'):
    if k in vals:
      args.append(vals[k])
  try:
    fn(*args)
  except Exception as ex:  # pylint: disable=broad-except
    print(kernel, 'raised', repr(ex))
    return True
  return False


def small_upper_differences(rec, seed, bitlens):
  m = _mods()
  rsa_util, scf = m['rsa_util'], m['scf']
  rec.functions('paranoid_crypto.lib.rsa_util:CheckSmallUpperDifferences')
  rec.bounds('every modulus with bit length in %s (symbolic value); '
             'FactorWithGuess by contract' % (bitlens,))
  cexs = []
  done = 0

  def guess(n, p_0):
    return None

  with stubs.patched(rsa_util, gmpy=stubs.GMPY), \
      stubs.patched(scf, FactorWithGuess=guess):
    for L in bitlens:

      def run(e, L=L):
        n = ivar(e, 'n', lo=2**(L - 1), hi=2**L)
        e.notes['n'] = n
        return rsa_util.CheckSmallUpperDifferences(n)

      for p in pysym.explore(run, max_paths=200):
        e = p.eng
        rec.path(p.kind)
        if p.kind == 'abort':
          rec.inconclusive('bit length %d: %s' % (L, p.value))
          continue
        if p.kind == 'raise':
          r, mdl = e.feasible()
          if r == 'sat':
            cexs.append((L, repr(p.value), inputs_of(e, mdl)))
          elif r == 'unsat':
            rec.obligation('proved')
          else:
            rec.inconclusive('exception path undecided')
          continue
        rec.obligation('proved')
        done += 1
  rec.sample(dict(fn='CheckSmallUpperDifferences', bit_lengths=bitlens))
  rec.reach(1, 1 if done else 0)
  for L, exc, cex in cexs[:3]:
    try:
      rsa_util.CheckSmallUpperDifferences(int(cex['n']))
      bad = False
    except Exception as ex:  # pylint: disable=broad-except
      bad, exc = True, repr(ex)
    rec.replayed()
    rec.violation('rsa_util.CheckSmallUpperDifferences', 'raises',
                  '%d-bit modulus: %s' % (L, exc), cex,
                  dict(module='harness.props.c18', function='replay_kernel',
                       args=dict(kernel='rsa_util.CheckSmallUpperDifferences',
                                 inputs={'n': str(cex['n'])})), bad)


# ---------------------------------------------------------------------------
# EC key checks


ALL_CURVE_IDS = list(range(0, 20)) + [20, 77]


def _curve_pool(ec_util, pb):
  return {cid: ec_util.CURVE_FACTORY.get(cid) for cid in ALL_CURVE_IDS}


def ec_single(rec, seed, check, curve_ids):
  m = _mods()
  pb, ec_util, util, ecs = m['pb'], m['ec_util'], m['util'], m['ecs']
  rec.functions('paranoid_crypto.lib.ec_single_checks:%s.Check' % check,
                'paranoid_crypto.lib.ec_util:EcCurve.IsValidPublicKey',
                'paranoid_crypto.lib.ec_util:PublicPoint')
  rec.bounds('batches of 0, 1 and 2 keys; curve identifiers %s; coordinates '
             'symbolic in [0, 2^530) (any size incl. 0, p, p+x, off-curve)'
             % (curve_ids,))
  cexs = []
  done = 0
  chk = getattr(ecs, check)()

  def dl_stub(self, points):
    stubs.USED.add('EcCurve.ExtendedBatchDL: list of None / arbitrary '
                   'integers of the same length (C02/C10 cover it)')
    e = pysym.eng()
    out = []
    for _ in points:
      if e.decide(e.fresh('dl_found', 'bool')):
        out.append(SInt(e.fresh('dl')))
      else:
        out.append(None)
    return out

  for batch in ([], [0], [0, 1]):
    for cids in itertools.product(curve_ids, repeat=len(batch)):

      def run(e, cids=cids):
        keys = []
        for i, cid in enumerate(cids):
          k = pb.ECKey()
          k.ec_info.curve_type = cid
          k.ec_info.x = ivar(e, 'x%d' % i, lo=0, hi=2**530)
          k.ec_info.y = ivar(e, 'y%d' % i, lo=0, hi=2**530)
          keys.append(k)
        e.notes['keys'] = keys
        return chk.Check(keys)

      att = []
      with stubs.patched(util, Bytes2Int=lambda b: b,
                         AttachInfo=lambda ti, nm, v: att.append((ti, nm, v))), \
          stubs.patched(ec_util, gmpy=stubs.GMPY), \
          stubs.patched(ecs, logging=common.QUIET, format=lambda v, s: 'x',
                        int=stubs.sym_int), \
          checklevel_attr(ec_util.EcCurve, 'ExtendedBatchDL', dl_stub):
        for p in pysym.explore(run, max_paths=3000, feas_timeout_ms=500):
          e = p.eng
          rec.path(p.kind)
          if p.kind == 'abort':
            rec.inconclusive('%s %r: %s' % (check, cids, p.value))
            continue
          if p.kind == 'raise':
            r, mdl = e.feasible()
            if r == 'sat':
              cexs.append((cids, repr(p.value), inputs_of(e, mdl)))
            elif r == 'unsat':
              rec.obligation('proved')
            else:
              # NIA feasibility undecided: try the concrete replay of the
              # decision-only model
              rec.inconclusive('exception path undecided %r' % (p.value,))
            continue
          ok = isinstance(p.value, (bool, pysym.SBool))
          if ok:
            rec.obligation('proved')
          else:
            cexs.append((cids, 'returned %r' % (p.value,), {}))
          done += 1
  rec.sample(dict(check=check, curve_ids=curve_ids, paths=done))
  rec.reach(1, 1 if done else 0)
  for cids, exc, cex in cexs[:3]:
    bad, detail = replay_ec(check, list(cids),
                            [(cex.get('x%d' % i, 0), cex.get('y%d' % i, 0))
                             for i in range(len(cids))])
    rec.replayed()
    rec.violation('ec_single_checks.%s.Check' % check, 'raises',
                  '%s: %s' % (exc, detail), dict(curves=list(cids), **cex),
                  dict(module='harness.props.c18', function='replay_ec_cmd',
                       args=dict(check=check, cids=list(cids),
                                 pts=[[str(cex.get('x%d' % i, 0)),
                                       str(cex.get('y%d' % i, 0))]
                                      for i in range(len(cids))])), bad)


import contextlib


@contextlib.contextmanager
def checklevel_attr(obj, name, value):
  old = getattr(obj, name)
  setattr(obj, name, value)
  try:
    yield
  finally:
    setattr(obj, name, old)


def replay_ec(check, cids, pts, max_diff=None):
  m = _mods(fakes=False)
  pb, util = m['pb'], m['util']
  mod = m['ecs'] if hasattr(m['ecs'], check) else m['eca']
  chk = getattr(mod, check)() if max_diff is None else getattr(mod, check)(
      max_diff)
  keys = []
  for cid, (x, y) in zip(cids, pts):
    k = pb.ECKey()
    k.ec_info.curve_type = int(cid)
    k.ec_info.x = util.Int2Bytes(int(x))
    k.ec_info.y = util.Int2Bytes(int(y))
    keys.append(k)
  try:
    r = chk.Check(keys)
  except Exception as ex:  # pylint: disable=broad-except
    return True, 'real check raised %r' % (ex,)
  return not isinstance(r, bool), 'real check returned %r' % (r,)


def replay_ec_cmd(check, cids, pts, max_diff=None):
  bad, detail = replay_ec(check, cids, pts, max_diff)
  print(detail)
  return bad


def ec_small_difference(rec, seed, cid, max_diff):
  m = _mods()
  pb, ec_util, util, eca = m['pb'], m['ec_util'], m['util'], m['eca']
  curve = ec_util.CURVE_FACTORY[cid]
  p = int(curve.mod)
  rec.functions(
      'paranoid_crypto.lib.ec_aggregate_checks:CheckECKeySmallDifference.Check',
      'paranoid_crypto.lib.ec_util:EcCurve.BatchDLOfDifferences',
      'paranoid_crypto.lib.ec_util:EcCurve.BatchAddX',
      'paranoid_crypto.lib.ec_util:EcCurve.BatchInverse',
      'paranoid_crypto.lib.ec_util:EcCurve.Add',
      'paranoid_crypto.lib.ec_util:EcCurve.Double')
  rec.bounds('two keys on %s, max_diff = %d (table built concretely); '
             'coordinates symbolic in [0, 2p) - reduced, equal to p, p + x, '
             'off-curve' % (curve.name, max_diff))
  cexs = []
  done = 0
  chk = eca.CheckECKeySmallDifference(max_diff)
  # build the lookup table concretely (real code, real gmpy)
  curve._table = curve.PointTable(curve.g, max_diff)
  curve._table_size = max_diff
  table = dict(curve._table)

  class Tab(dict):
    """x in table with a symbolic x: forks over the concrete keys."""

    def __contains__(self, x):
      if not pysym.is_sym(x):
        return dict.__contains__(self, x)
      for k in self.keys():
        if k is not None and x == k:
          return True
      return False

    def __getitem__(self, x):
      if not pysym.is_sym(x):
        return dict.__getitem__(self, x)
      for k in self.keys():
        if k is not None and x == k:
          return dict.__getitem__(self, k)
      raise KeyError(x)

  def run(e):
    keys = []
    for i in range(2):
      k = pb.ECKey()
      k.ec_info.curve_type = cid
      k.ec_info.x = ivar(e, 'x%d' % i, lo=0, hi=2 * p)
      k.ec_info.y = ivar(e, 'y%d' % i, lo=0, hi=2 * p)
      keys.append(k)
    curve._table = Tab(table)
    # the relation text "key - (%x, %x) = %d * G" is rendered with placeholder
    # numbers (its content is C02's subject, not totality)
    e.notes['format_placeholder_in'] = {'BatchDLOfDifferences'}
    stubs.USED.add('string rendering of symbolic coordinates inside '
                   'BatchDLOfDifferences: placeholder text')
    return chk.Check(keys)

  mul_stub_calls = []

  def multiply(self, pt, n):
    # Multiply(base, dl) with concrete arguments only
    return orig_mul(self, pt, n)

  orig_mul = ec_util.EcCurve.Multiply
  try:
    with stubs.patched(util, Bytes2Int=lambda b: b,
                       AttachInfo=lambda ti, nm, v: None), \
        stubs.patched(ec_util, gmpy=stubs.GMPY), \
        stubs.patched(eca, logging=common.QUIET):
      for pth in pysym.explore(run, max_paths=5000, feas_timeout_ms=1000):
        e = pth.eng
        rec.path(pth.kind)
        if pth.kind == 'abort':
          rec.inconclusive('path aborted: %s' % pth.value)
          continue
        if pth.kind == 'raise':
          r, mdl = e.feasible()
          if r == 'sat':
            cexs.append((repr(pth.value), inputs_of(e, mdl)))
          elif r == 'unsat':
            rec.obligation('proved')
          else:
            rec.inconclusive('exception path undecided %r' % (pth.value,))
          continue
        rec.obligation('proved')
        done += 1
  finally:
    curve._table = {}
    curve._table_size = 0
  rec.sample(dict(check='CheckECKeySmallDifference', curve=curve.name,
                  paths=done))
  rec.reach(1, 1 if done else 0)
  seen = set()
  for exc, cex in cexs:
    pts = [(cex['x%d' % i], cex['y%d' % i]) for i in range(2)]
    bad, detail = replay_ec('CheckECKeySmallDifference', [cid, cid], pts,
                            max_diff)
    tags = []
    x0, x1 = pts[0][0], pts[1][0]
    y0, y1 = pts[0][1], pts[1][1]
    if bad and 'ZeroDivisionError' in detail:
      if x0 != x1 and (x0 - x1) % p == 0:
        tags.append('x_congruent_not_equal')
      elif x0 == x1 and y0 == y1 and y0 % p == 0:
        tags.append('same_key_with_y_zero')
    key = (exc.split('(')[0], tuple(tags))
    if key in seen:
      continue
    seen.add(key)
    rec.replayed()
    rec.violation('ec_aggregate_checks.CheckECKeySmallDifference.Check',
                  'raises', '%s; %s' % (exc, detail),
                  dict(curve=curve.name, points=pts),
                  dict(module='harness.props.c18', function='replay_ec_cmd',
                       args=dict(check='CheckECKeySmallDifference',
                                 cids=[cid, cid],
                                 pts=[[str(a), str(b)] for a, b in pts],
                                 max_diff=max_diff)), bad, tags=tags)
    if len(seen) >= 4:
      break


# ---------------------------------------------------------------------------
# ECDSA nonce checks with the lattice reduction havocked


def ecdsa_bias(rec, seed, check, nsigs, cids=None):
  m = _mods()
  pb, ec_util, util, sigc, hnp, cr50 = (m['pb'], m['ec_util'], m['util'],
                                        m['sigc'], m['hnp'], m['cr50'])
  from paranoid_crypto.lib import lll  # pylint: disable=g-import-not-at-top
  cid = 2  # secp256r1
  curve = ec_util.CURVE_FACTORY[cid]
  n = int(curve.n)
  rec.functions('paranoid_crypto.lib.ecdsa_sig_checks:%s.Check' % check,
                'paranoid_crypto.lib.ecdsa_sig_checks:_IssuerDLogs',
                'paranoid_crypto.lib.hidden_number_problem:GetLattice',
                'paranoid_crypto.lib.hidden_number_problem:HiddenNumberProblem',
                'paranoid_crypto.lib.cr50_u2f_weakness:Cr50U2fGuesses',
                'paranoid_crypto.lib.ec_util:EcCurve.HiddenNumberParams')
  rec.bounds('%d signatures of one issuer on secp256r1 with distinct concrete '
             'r, symbolic s in [1, n-1] and symbolic 32-byte hash value; '
             'lll.reduce = one arbitrary integer row; BatchMultiplyG = '
             'arbitrary points' % nsigs)
  if cids is not None:
    rec.bounds('%d signatures with issuer curve identifiers %r (unknown, '
               'binary-field and supported ones mixed), distinct concrete r, '
               'symbolic s and 32-byte hash value; lll.reduce = one arbitrary '
               'integer row; BatchMultiplyG = arbitrary points' %
               (len(cids), cids))
    nsigs = len(cids)
  else:
    cids = [cid] * nsigs
  cexs = []
  done = 0
  chk = getattr(sigc, check)()

  def reduce_stub(lat):
    stubs.USED.add('lll.reduce: one arbitrary integer row')
    e = pysym.eng()
    return [[SInt(e.fresh('lll')) for _ in range(len(lat[0]))]]

  def mulg(self, scalars):
    stubs.USED.add('EcCurve.BatchMultiplyG: arbitrary points (C11 covers it)')
    e = pysym.eng()
    return [(SInt(e.fresh('gx')), SInt(e.fresh('gy'))) for _ in scalars]

  def hnp_curve(a, b, curve_type, lcg, flags):
    stubs.USED.add('hnp.HiddenNumberProblemForCurve: arbitrary guess list')
    if len(a) != len(b):
      raise ValueError('a and b are not of the same size')
    e = pysym.eng()
    return [SInt(e.fresh('guess'))]

  def run(e):
    sigs = []
    for i in range(nsigs):
      s = pb.ECDSASignature()
      s.issuer_key_info.curve_type = cids[i]
      s.issuer_key_info.x = 5
      s.issuer_key_info.y = 7
      s.ecdsa_sig_info.r = 1000 + i
      ci = ec_util.CURVE_FACTORY.get(cids[i])
      s.ecdsa_sig_info.s = ivar(e, 's%d' % i, lo=1,
                                hi=int(ci.n) if ci is not None else n)
      s.ecdsa_sig_info.message_hash = HashVal(ivar(e, 'h%d' % i, lo=0,
                                                   hi=2**256), 32)
      sigs.append(s)
    return chk.Check(sigs)

  with stubs.patched(util, Bytes2Int=_b2i, AttachInfo=lambda ti, nm, v: None), \
      stubs.patched(ec_util, gmpy=stubs.GMPY), \
      stubs.patched(hnp, gmpy=stubs.GMPY, int=stubs.sym_int,
                    lll=type('L', (), dict(reduce=staticmethod(reduce_stub))),
                    HiddenNumberProblemForCurve=hnp_curve), \
      stubs.patched(cr50, gmpy=stubs.GMPY, int=stubs.sym_int, abs=abs,
                    lll=type('L', (), dict(reduce=staticmethod(reduce_stub)))), \
      stubs.patched(sigc, logging=common.QUIET, format=lambda v, s: 'x',
                    int=stubs.sym_int), \
      checklevel_attr(ec_util.EcCurve, 'BatchMultiplyG', mulg):
    for p in pysym.explore(run, max_paths=4000, feas_timeout_ms=1000):
      e = p.eng
      rec.path(p.kind)
      if p.kind == 'abort':
        rec.inconclusive('path aborted: %s' % p.value)
        continue
      if p.kind == 'raise':
        r, mdl = e.feasible()
        if r == 'sat':
          cexs.append((repr(p.value), inputs_of(e, mdl)))
        elif r == 'unsat':
          rec.obligation('proved')
        elif isinstance(p.value, ArithmeticError) and 'Sanity' in str(
            p.value):
          # Cr50U2fGuesses' internal consistency check x1 == x2: follows
          # from (k1*a + k2*b - w) % n == 0 by an algebraic identity that the
          # solver does not decide; assumed unreachable (listed)
          stubs.USED.add('cr50_u2f_weakness.Cr50U2fGuesses: the internal '
                         '"Sanity check failed" branch is assumed '
                         'unreachable (identity not discharged)')
        else:
          rec.inconclusive('exception path undecided %r' % (p.value,))
        continue
      rec.obligation('proved')
      done += 1
  rec.sample(dict(check=check, signatures=nsigs, paths=done))
  rec.reach(1, 1 if done else 0)
  for exc, cex in cexs[:2]:
    cex = dict(cex)
    cex['cids'] = list(cids)
    bad, detail = replay_sigs(check, nsigs, cex)
    rec.replayed()
    rec.violation('ecdsa_sig_checks.%s.Check' % check, 'raises',
                  '%s; %s' % (exc, detail),
                  {k: str(v) for k, v in cex.items()},
                  dict(module='harness.props.c18', function='replay_sigs_cmd',
                       args=dict(check=check, nsigs=nsigs,
                                 cex={k: str(v) for k, v in cex.items()})),
                  bad)


class HashVal:
  """message_hash field: symbolic integer value with a concrete length."""

  def __init__(self, v, length):
    self.v = v
    self.length = length

  def __len__(self):
    return self.length


def _b2i(b):
  if isinstance(b, HashVal):
    return b.v
  return b


def replay_sigs(check, nsigs, cex):
  """Real check, real protobufs, real lattice code (small batches only)."""
  m = _mods(fakes=False)
  pb, util, sigc, ec_util = m['pb'], m['util'], m['sigc'], m['ec_util']
  curve = ec_util.CURVE_FACTORY[2]
  G = curve.g
  sigs = []
  cids = cex.get('cids') or [2] * int(nsigs)
  if isinstance(cids, str):
    import ast  # pylint: disable=g-import-not-at-top
    cids = ast.literal_eval(cids)
  for i in range(int(nsigs)):
    s = pb.ECDSASignature()
    s.issuer_key_info.curve_type = int(cids[i])
    s.issuer_key_info.x = util.Int2Bytes(int(G[0]))
    s.issuer_key_info.y = util.Int2Bytes(int(G[1]))
    s.ecdsa_sig_info.r = util.Int2Bytes(1000 + i)
    s.ecdsa_sig_info.s = util.Int2Bytes(int(cex.get('s%d' % i, 1 + i)) or 1)
    s.ecdsa_sig_info.message_hash = int(cex.get('h%d' % i, 0)).to_bytes(32,
                                                                        'big')
    sigs.append(s)
  try:
    r = getattr(sigc, check)().Check(sigs)
  except Exception as ex:  # pylint: disable=broad-except
    return True, 'real check raised %r' % (ex,)
  return not isinstance(r, bool), 'real check returned %r' % (r,)


def replay_sigs_cmd(check, nsigs, cex):
  bad, detail = replay_sigs(check, nsigs, cex)
  print(detail)
  return bad


# ---------------------------------------------------------------------------
# ground runs: empty batches and boundary moduli through the real entry points


def ground(rec, seed, part):
  m = _mods(fakes=False)
  pb, util, paranoid = m['pb'], m['util'], m['paranoid']
  import gmpy2  # pylint: disable=g-import-not-at-top
  rec.functions('paranoid_crypto.lib.paranoid:CheckAllRSA',
                'paranoid_crypto.lib.paranoid:CheckAllEC',
                'paranoid_crypto.lib.paranoid:CheckAllECDSASigs')
  rec.bounds('ground (concrete) runs of the real entry points with real '
             'protobufs: empty batches; RSA moduli of every degenerate shape '
             'at bit lengths 64..1024 through every RSA single check')
  probs = []
  n_ok = 0
  if part == 'empty':
    for nm, fn in (('CheckAllRSA', paranoid.CheckAllRSA),
                   ('CheckAllEC', paranoid.CheckAllEC),
                   ('CheckAllECDSASigs', paranoid.CheckAllECDSASigs)):
      try:
        r = fn([])
        if r is not False:
          probs.append(('%s([]) returned %r' % (nm, r), nm, 'empty'))
        else:
          n_ok += 1
      except Exception as ex:  # pylint: disable=broad-except
        probs.append(('%s([]) raised %r' % (nm, ex), nm, 'empty'))
  else:
    from paranoid_crypto.lib import rsa_single_checks as rsc  # pylint: disable=g-import-not-at-top
    np_ = lambda x: int(gmpy2.next_prime(x))
    mods = [nn for _, nn in c01.degenerate_moduli()]
    for L in (383, 384, 385, 448, 511, 512, 766, 767, 768, 769, 1023, 1024):
      mods.append(np_(2**(L // 2)) * np_(2**(L - L // 2 - 1) + 12345))
      mods.append(2**(L - 1) + 1)
    checks = [c for c in paranoid._ACTIVE_RSA_SINGLE_CHECKS
              if c.__name__ not in ('CheckLowHammingWeight',)]
    insts = []
    for c in checks:
      try:
        insts.append(c())
      except Exception as ex:  # pylint: disable=broad-except
        probs.append(('%s() raised %r' % (c.__name__, ex), c.__name__, 'ctor'))
    for nn in mods:
      for chk in insts:
        k = pb.RSAKey()
        k.rsa_info.n = util.Int2Bytes(nn)
        k.rsa_info.e = util.Int2Bytes(3)
        try:
          r = chk.Check([k])
          if not isinstance(r, bool):
            probs.append(('%s returned %r' % (chk.check_name, r),
                          chk.check_name, str(nn)))
          else:
            n_ok += 1
        except Exception as ex:  # pylint: disable=broad-except
          probs.append(('%s raised %r on a %d-bit modulus' %
                        (chk.check_name, ex, nn.bit_length()), chk.check_name,
                        str(nn)))
  rec.path('ground')
  rec.reach(1, 1)
  rec.replayed(n_ok)
  rec.sample(dict(ground=part, runs=n_ok))
  for _ in range(n_ok):
    pass
  rec.d['obligations'] += n_ok
  rec.d['proved'] += n_ok
  seen = set()
  for what, who, arg in probs:
    if who in seen:
      continue
    seen.add(who)
    rec.violation('paranoid.' + who, 'raises', what, dict(arg=arg),
                  dict(module='harness.props.c18', function='replay_ground',
                       args=dict(part=part)), True,
                  tags=['empty_batch'] if arg == 'empty' else [])


def replay_ground(part):
  from harness.runner import Recorder  # pylint: disable=g-import-not-at-top
  r = Recorder('g')
  ground(r, 0, part)
  for v in r.d['violations']:
    print(v['what'])
  return bool(r.d['violations'])


def jobs(tier, seed):
  thorough = tier == 'thorough'
  out = []
  out += checklevel.relational_jobs('C18', ('c18',), tier)
  # kernels
  out.append(Job('kernel_fermat', kernel_totality,
                 dict(which='fermat_soundness', params=dict(K=4)), timeout=600,
                 cost=5))
  out.append(Job('kernel_cf', kernel_totality,
                 dict(which='cf_soundness', params=dict(bits=[64], cflen=1)),
                 timeout=900, cost=10))
  out.append(Job('kernel_fraction', kernel_totality,
                 dict(which='fraction_soundness', params=dict(bits=[64, 65],
                                                              d0=7)),
                 timeout=900, cost=6))
  out.append(Job('kernel_pollard', kernel_totality,
                 dict(which='pollard_soundness', params={}), timeout=600,
                 cost=3))
  out.append(Job('kernel_guess', kernel_totality,
                 dict(which='guess_soundness', params=dict(bits=[64, 65],
                                                           cflen=1)),
                 timeout=900, cost=8))
  for L in ([6, 7] if not thorough else [6, 7, 8, 9]):
    out.append(Job('kernel_highlow_L%d' % L, kernel_totality,
                   dict(which='highlow_soundness',
                        params=dict(L=L, middle_bits=3,
                                    width=(5 * L) // 2 + 8)), timeout=1200,
                   cost=2**(L - 5)))
  out.append(Job('small_upper_differences', small_upper_differences,
                 dict(bitlens=[64, 383, 384, 385, 511, 512, 767, 768, 769,
                               1024]), timeout=900, cost=10))
  # EC
  known = [1, 2, 3, 4, 5, 6, 17, 18, 19]
  ids_quick = [0, 2, 5, 7, 20]
  out.append(Job('ec_valid', ec_single,
                 dict(check='CheckValidECKey',
                      curve_ids=ids_quick if not thorough else
                      [0, 1, 2, 3, 5, 6, 7, 17, 19, 20, 77]), timeout=3000,
                 cost=40))
  out.append(Job('ec_weak_curve', ec_single,
                 dict(check='CheckWeakCurve', curve_ids=ALL_CURVE_IDS if
                      thorough else [0, 1, 2, 7, 16, 19, 20, 77]),
                 timeout=3000, cost=10))
  out.append(Job('ec_weak_private_key', ec_single,
                 dict(check='CheckWeakECPrivateKey',
                      curve_ids=[0, 2, 7, 20] if not thorough else
                      [0, 1, 2, 5, 7, 19, 20, 77]), timeout=3000, cost=10))
  for cid in [2]:
    out.append(Job('ec_small_difference_c%d' % cid, ec_small_difference,
                   dict(cid=cid, max_diff=3), timeout=3000, cost=60))
  for check in ('CheckNonceMSB', 'CheckNonceCommonPostfix',
                'CheckNonceGeneralized', 'CheckLCGNonceGMP', 'CheckCr50U2f'):
    for ns_ in ([1, 2, 24] if not thorough else [1, 2, 3, 23, 24, 25, 48]):
      if check == 'CheckCr50U2f' and ns_ > 3:
        continue
      out.append(Job('ecdsa_%s_%d' % (check, ns_), ecdsa_bias,
                     dict(check=check, nsigs=ns_), timeout=3000,
                     cost=5 + ns_))
  mixes = [[0], [7], [77], [0, 2], [2, 7], [4, 2, 0]] + (
      [[i] for i in ALL_CURVE_IDS if i not in (0, 7, 77)] if thorough else [])
  for check in ('CheckNonceMSB', 'CheckNonceCommonPostfix',
                'CheckNonceGeneralized', 'CheckLCGNonceGMP', 'CheckCr50U2f'):
    for mi, mix in enumerate(mixes):
      if check == 'CheckCr50U2f' and len(mix) > 2:
        mix = [mix[0], mix[-1]]
      out.append(Job('ecdsa_%s_curves%s' % (check, '_'.join(map(str, mix))),
                     ecdsa_bias, dict(check=check, nsigs=len(mix), cids=mix),
                     timeout=3000, cost=5 + 3 * len(mix)))
  out.append(Job('ground_empty', ground, dict(part='empty'), timeout=900,
                 cost=3))
  out.append(Job('ground_rsa', ground, dict(part='rsa'), timeout=3000,
                 cost=50))
  return out
