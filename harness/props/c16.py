"""C16 - verdict bookkeeping is faithful and monotone."""
import itertools

import z3

from harness import checklevel
from harness import common
from harness import pb2shim
from harness import pysym
from harness import stubs
from harness.common import T, ivar, boolvar, inputs_of
from harness.pysym import SInt, SBool
from harness.runner import Job

OUTSIDE = [
    'real protobuf type checking in symbolic runs (duck-typed fakes '
    'generated from paranoid.proto; replays use the real classes)',
    'README severities as prose; histories longer than 3 calls',
    'CheckOpensslDenylist and the EC/ECDSA check bodies in symbolic form '
    '(their entry bookkeeping is covered through SetTestResult and '
    'CheckIssuerKey)',
]
ASSUMPTIONS = []


def _mods(fakes=True):
  pb = common.lib(fakes=fakes)
  pb2shim.use_fakes(fakes)
  from paranoid_crypto.lib import util, paranoid, ecdsa_sig_checks, ec_util  # pylint: disable=g-import-not-at-top
  from paranoid_crypto import version  # pylint: disable=g-import-not-at-top
  return pb, util, paranoid, ecdsa_sig_checks, ec_util, version


NAMES = ['CheckA', 'CheckB']


def set_test_result_history(rec, seed, ncalls, pre):
  pb, util, paranoid, sigc, ec_util, version = _mods()
  rec.functions('paranoid_crypto.lib.util:SetTestResult',
                'paranoid_crypto.lib.util:GetTestResult',
                'paranoid_crypto.lib.util:GetHighestSeverity')
  rec.bounds('%d SetTestResult calls on one TestInfo that is %s; per call: '
             'name from a 2-element alphabet (symbolic choice), result '
             'symbolic, severity symbolic in 0..4' %
             (ncalls, 'pre-annotated with one entry (symbolic result / '
              'severity, symbolic weak flag, version present or absent)'
              if pre else 'fresh'))
  cexs = []
  reach = 0

  def run(e):
    ti = pb.TestInfo()
    hist = []
    if pre:
      r0 = boolvar(e, 'pre_result')
      s0 = ivar(e, 'pre_sev', lo=0, hi=5)
      w0 = boolvar(e, 'pre_weak')
      hasv = boolvar(e, 'pre_has_version')
      ent = pb.TestResultsEntry(test_name=NAMES[0], result=r0, severity=s0)
      ti.test_results.append(ent)
      ti.weak = w0
      if hasv:
        ti.paranoid_lib_version = '0.9.0'
      e.notes['pre'] = (r0, s0, w0, ti.paranoid_lib_version)
    for c in range(ncalls):
      which = boolvar(e, 'name_%d' % c)
      name = NAMES[1] if which else NAMES[0]  # forks
      res = boolvar(e, 'result_%d' % c)
      sev = ivar(e, 'sev_%d' % c, lo=0, hi=5)
      tr = pb.TestResultsEntry(test_name=name, result=res, severity=sev)
      util.SetTestResult(ti, tr)
      hist.append((name, res, sev))
    e.notes.update(ti=ti, hist=hist)
    return util.GetHighestSeverity(ti)

  for p in pysym.explore(run, max_paths=20000):
    e = p.eng
    rec.path(p.kind)
    if p.kind != 'return':
      r, m = e.feasible()
      if r == 'sat':
        cexs.append(('raises %r' % (p.value,), inputs_of(e, m)))
      elif r != 'unsat':
        rec.inconclusive('path undecided')
      continue
    ti, hist = e.notes['ti'], e.notes['hist']
    goals = []
    per = {}
    weak = z3.BoolVal(False)
    order = []
    if pre:
      r0, s0, w0, v0 = e.notes['pre']
      per[NAMES[0]] = [(pysym.sbool(r0), s0.t)]
      order.append(NAMES[0])
      weak = pysym.sbool(w0)
    for name, res, sev in hist:
      per.setdefault(name, []).append((pysym.sbool(res), sev.t))
      if name not in order:
        order.append(name)
      weak = z3.Or(weak, pysym.sbool(res))
    names_now = [r_.test_name for r_ in ti.test_results]
    goals.append(('one_entry_per_name_in_order',
                  z3.BoolVal(names_now == order)))
    for r_ in ti.test_results:
      items = per.get(r_.test_name, [])
      if not items:
        continue
      want_res = z3.Or([x[0] for x in items])
      want_sev = items[0][1]
      for x in items[1:]:
        want_sev = z3.If(x[1] > want_sev, x[1], want_sev)
      goals.append(('result_is_or', pysym.sbool(r_.result) == want_res))
      goals.append(('severity_is_max', T(r_.severity) == want_sev))
    goals.append(('weak_monotone', pysym.sbool(ti.weak) == weak))
    if pre and e.notes['pre'][3]:
      goals.append(('version_kept', z3.BoolVal(
          ti.paranoid_lib_version == '0.9.0')))
    elif hist:
      goals.append(('version_recorded', z3.BoolVal(
          ti.paranoid_lib_version == version.__version__)))
    # GetHighestSeverity: max severity among positive entries, None if none
    hs = p.value
    pos = [(pysym.sbool(r_.result), T(r_.severity)) for r_ in ti.test_results]
    anypos = z3.Or([x[0] for x in pos]) if pos else z3.BoolVal(False)
    if hs is None:
      goals.append(('highest_none', z3.Not(anypos)))
    else:
      g = anypos
      g = z3.And(g, z3.Or([z3.And(x[0], T(hs) == x[1]) for x in pos]))
      g = z3.And(g, z3.And([z3.Implies(x[0], T(hs) >= x[1]) for x in pos]))
      goals.append(('highest_severity', g))
    for name, g in goals:
      g = z3.simplify(g)
      if z3.is_true(g):
        rec.obligation('proved')
        continue
      r, m, _ = e.prove(g)
      if r == 'proved':
        rec.obligation('proved')
      elif r == 'unknown':
        rec.obligation('unknown', name)
      else:
        cexs.append((name, inputs_of(e, m)))
    if reach == 0:
      reach = 1
      rec.sample(dict(fn='SetTestResult', calls=ncalls, pre=pre))
  rec.reach(1, reach)
  seen = set()
  for name, cex in cexs:
    key = name.split(' ')[0]
    if key in seen:
      continue
    seen.add(key)
    bad, detail = replay_history(cex, ncalls, pre)
    rec.replayed()
    rec.violation('util.SetTestResult', key, detail,
                  {k: str(v) for k, v in cex.items()},
                  dict(module='harness.props.c16',
                       function='replay_history_cmd',
                       args=dict(cex={k: str(v) for k, v in cex.items()},
                                 ncalls=ncalls, pre=pre)), bad)
    if len(seen) >= 3:
      break


def _b(v):
  return v is True or v == 'True'


def replay_history(cex, ncalls, pre):
  """Same history on real protobuf messages."""
  pb, util, paranoid, sigc, ec_util, version = _mods(fakes=False)
  ti = pb.TestInfo()
  per = {}
  order = []
  weak = False
  had_version = False
  if pre:
    r0, s0 = _b(cex.get('pre_result')), int(cex.get('pre_sev', 0))
    ti.test_results.append(pb.TestResultsEntry(
        test_name=NAMES[0], result=r0, severity=s0))
    ti.weak = _b(cex.get('pre_weak'))
    weak = ti.weak
    if _b(cex.get('pre_has_version')):
      ti.paranoid_lib_version = '0.9.0'
      had_version = True
    per[NAMES[0]] = [(r0, s0)]
    order.append(NAMES[0])
  try:
    for c in range(ncalls):
      name = NAMES[1] if _b(cex.get('name_%d' % c)) else NAMES[0]
      res, sev = _b(cex.get('result_%d' % c)), int(cex.get('sev_%d' % c, 0))
      util.SetTestResult(ti, pb.TestResultsEntry(
          test_name=name, result=res, severity=sev))
      per.setdefault(name, []).append((res, sev))
      if name not in order:
        order.append(name)
      weak = weak or res
    hs = util.GetHighestSeverity(ti)
  except Exception as ex:  # pylint: disable=broad-except
    return True, 'raised %r' % (ex,)
  got = [(r.test_name, r.result, r.severity) for r in ti.test_results]
  want = [(nm, any(x[0] for x in per[nm]), max(x[1] for x in per[nm]))
          for nm in order]
  pos = [s for _, r, s in want if r]
  want_hs = max(pos) if pos else None
  want_v = '0.9.0' if had_version else (version.__version__ if ncalls else '')
  detail = 'entries %r, expected %r; weak %r/%r; highest %r/%r' % (
      got, want, ti.weak, weak, hs, want_hs)
  return (got != want or ti.weak != weak or hs != want_hs or
          ti.paranoid_lib_version != want_v), detail


def replay_history_cmd(cex, ncalls, pre):
  bad, detail = replay_history(cex, ncalls, pre)
  print(detail)
  return bad


# ---------------------------------------------------------------------------
# AttachInfo / AttachFactors


def attach_history(rec, seed):
  pb, util, paranoid, sigc, ec_util, version = _mods()
  rec.functions('paranoid_crypto.lib.util:AttachFactors',
                'paranoid_crypto.lib.util:GetAttachedFactors',
                'paranoid_crypto.lib.util:AttachInfo')
  rec.bounds('3 AttachFactors calls with factor sets chosen by symbolic '
             'selectors from {3, 15, 2^70+1}, two info names (symbolic '
             'choice); AttachInfo last-write-wins')
  pool = [3, 15, 2**70 + 1]
  names = ['N_FACTORS', 'N-1_FACTORS']
  cexs = []
  done = 0

  def run(e):
    ti = pb.TestInfo()
    hist = []
    for c in range(3):
      nm = names[1] if boolvar(e, 'nm_%d' % c) else names[0]
      fs = [v for i, v in enumerate(pool) if boolvar(e, 'f_%d_%d' % (c, i))]
      util.AttachFactors(ti, nm, fs)
      hist.append((nm, fs))
    util.AttachInfo(ti, 'X', 'one')
    util.AttachInfo(ti, 'X', 'two')
    e.notes.update(ti=ti, hist=hist)
    return ti

  for p in pysym.explore(run, max_paths=20000):
    e = p.eng
    rec.path(p.kind)
    if p.kind != 'return':
      r, m = e.feasible()
      if r == 'sat':
        cexs.append(inputs_of(e, m))
      continue
    ti, hist = e.notes['ti'], e.notes['hist']
    ok = True
    for nm in names:
      want = set()
      for n2, fs in hist:
        if n2 == nm:
          want |= set(fs)
      calls = [h for h in hist if h[0] == nm]
      got = util.GetAttachedFactors(ti, nm)
      if calls:
        ok &= (got == want) or (not want and not got)
      else:
        ok &= got is None
    infos = [(a.info_name, a.value) for a in ti.attached_info]
    ok &= len({a for a, _ in infos}) == len(infos)
    ok &= ('X', 'two') in infos
    if ok:
      rec.obligation('proved')
    else:
      r, m = e.feasible()
      if r == 'sat':
        cexs.append(inputs_of(e, m))
    done += 1
  rec.sample(dict(fn='AttachFactors', histories=done))
  rec.reach(1, 1 if done else 0)
  for cex in cexs[:2]:
    rec.replayed()
    rec.violation('util.AttachFactors', 'merge',
                  'stored factor set is not the union of the attached sets',
                  {k: str(v) for k, v in cex.items()}, {}, True)


# ---------------------------------------------------------------------------
# _CheckArtifacts


def check_artifacts(rec, seed, nchecks):
  pb, util, paranoid, sigc, ec_util, version = _mods()
  rec.functions('paranoid_crypto.lib.paranoid:_CheckArtifacts')
  rec.bounds('%d stub checks returning arbitrary booleans, log levels 0 and 1'
             % nchecks)
  cexs = []
  done = 0
  for log_level in (0, 1):

    def run(e, log_level=log_level):
      arts = [object(), object()]
      calls = []
      rets = []

      class Chk:

        def __init__(self, i):
          self.i = i

        def Check(self, artifacts):
          calls.append((self.i, artifacts))
          r = boolvar(e, 'ret_%d' % self.i)
          rets.append(r)
          return r

      items = [('c%d' % i, Chk(i)) for i in range(nchecks)]
      e.notes.update(arts=arts, calls=calls, rets=rets)
      with stubs.patched(paranoid, logging=common.QUIET):
        return paranoid._CheckArtifacts(arts, items, log_level)

    for p in pysym.explore(run, max_paths=2000):
      e = p.eng
      rec.path(p.kind)
      if p.kind != 'return':
        r, m = e.feasible()
        if r == 'sat':
          cexs.append(inputs_of(e, m))
        continue
      calls, rets, arts = (e.notes[k] for k in ('calls', 'rets', 'arts'))
      g = z3.And(
          z3.BoolVal([c[0] for c in calls] == list(range(nchecks))),
          z3.BoolVal(all(c[1] is arts for c in calls)),
          pysym.sbool(p.value) == (z3.Or([pysym.sbool(r_) for r_ in rets])
                                   if rets else z3.BoolVal(False)))
      r, m, _ = e.prove(g)
      if r == 'proved':
        rec.obligation('proved')
      elif r == 'unknown':
        rec.obligation('unknown', '_CheckArtifacts')
      else:
        cexs.append(inputs_of(e, m))
      done += 1
  rec.sample(dict(fn='_CheckArtifacts', nchecks=nchecks, paths=done))
  rec.reach(1, 1 if done else 0)
  for cex in cexs[:2]:
    rec.replayed()
    vals = [_b(cex.get('ret_%d' % i)) for i in range(nchecks)]

    class C:

      def __init__(self, v):
        self.v = v

      def Check(self, a):
        return self.v

    got = paranoid._CheckArtifacts([], [('c', C(v)) for v in vals], 0)
    rec.violation('paranoid._CheckArtifacts', 'or',
                  'returned %r for check results %r' % (got, vals),
                  dict(rets=vals), {}, bool(got) != any(vals))


# ---------------------------------------------------------------------------
# CheckIssuerKey


def issuer_key(rec, seed, nsigs):
  pb, util, paranoid, sigc, ec_util, version = _mods()
  rec.functions('paranoid_crypto.lib.ecdsa_sig_checks:CheckIssuerKey.Check',
                'paranoid_crypto.lib.util:SetTestResult',
                'paranoid_crypto.lib.util:GetHighestSeverity')
  rec.bounds('%d signatures whose issuer points are equal or different by '
             'symbolic choice (coordinates symbolic); paranoid.CheckAllEC '
             'replaced by a stub that annotates each distinct key with an '
             'arbitrary verdict and 1..2 entries of arbitrary severity' %
             nsigs)
  cexs = []
  reach = 0

  def run(e):
    sigs = []
    for i in range(nsigs):
      s = pb.ECDSASignature()
      s.issuer_key_info.curve_type = 2
      s.issuer_key_info.x = ivar(e, 'x%d' % i, lo=0, hi=4)
      s.issuer_key_info.y = ivar(e, 'y%d' % i, lo=0, hi=2)
      sigs.append(s)
    keyinfo = []

    def check_all_ec(keys, log_level=0):
      stubs.USED.add('paranoid.CheckAllEC: annotates each key with an '
                     'arbitrary verdict and severities (C17/C18 cover the '
                     'real EC checks)')
      anyw = False
      for j, k in enumerate(keys):
        w1 = boolvar(e, 'k%d_res1' % j)
        s1 = ivar(e, 'k%d_sev1' % j, lo=0, hi=5)
        w2 = boolvar(e, 'k%d_res2' % j)
        s2 = ivar(e, 'k%d_sev2' % j, lo=0, hi=5)
        util.SetTestResult(k.test_info, pb.TestResultsEntry(
            test_name='CheckValidECKey', result=w1, severity=s1))
        util.SetTestResult(k.test_info, pb.TestResultsEntry(
            test_name='CheckWeakCurve', result=w2, severity=s2))
        keyinfo.append((k, w1, s1, w2, s2))
      return anyw

    e.notes.update(sigs=sigs, keyinfo=keyinfo)
    chk = sigc.CheckIssuerKey()
    with stubs.patched(paranoid, CheckAllEC=check_all_ec), \
        stubs.patched(util, Bytes2Int=lambda b: b), \
        stubs.patched(ec_util, gmpy=stubs.GMPY), \
        stubs.patched(sigc, logging=common.QUIET):
      return chk.Check(sigs)

  for p in pysym.explore(run, max_paths=50000):
    e = p.eng
    rec.path(p.kind)
    if p.kind != 'return':
      r, m = e.feasible()
      if r == 'sat':
        cexs.append(('raises %r' % (p.value,), inputs_of(e, m)))
      elif r != 'unsat':
        rec.inconclusive('path undecided')
      continue
    sigs, keyinfo = e.notes['sigs'], e.notes['keyinfo']
    goals = []
    anyweak = z3.BoolVal(False)
    for s in sigs:
      ents = [r_ for r_ in s.test_info.test_results
              if r_.test_name == 'CheckIssuerKey']
      goals.append(('one_entry', z3.BoolVal(
          len(ents) == 1 and len(s.test_info.test_results) == 1)))
      if len(ents) != 1:
        continue
      # which key is this signature's issuer?
      alts = []
      for (k, w1, s1, w2, s2) in keyinfo:
        same = z3.And(T(k.ec_info.x) == T(s.issuer_key_info.x),
                      T(k.ec_info.y) == T(s.issuer_key_info.y))
        kw = z3.Or(pysym.sbool(w1), pysym.sbool(w2))
        hi = z3.If(z3.And(pysym.sbool(w1), pysym.sbool(w2)),
                   z3.If(s1.t > s2.t, s1.t, s2.t),
                   z3.If(pysym.sbool(w1), s1.t, s2.t))
        alts.append(z3.And(
            same, pysym.sbool(ents[0].result) == kw,
            T(ents[0].severity) == z3.If(kw, hi, z3.IntVal(0)),
            pysym.sbool(s.test_info.weak) == kw))
      goals.append(('verdict_of_issuer_key', z3.Or(alts) if alts else
                    z3.BoolVal(False)))
      anyweak = z3.Or(anyweak, pysym.sbool(ents[0].result))
    # keys are de-duplicated
    for (a, b_) in itertools.combinations(keyinfo, 2):
      goals.append(('keys_distinct', z3.Or(
          T(a[0].ec_info.x) != T(b_[0].ec_info.x),
          T(a[0].ec_info.y) != T(b_[0].ec_info.y))))
    goals.append(('return_is_or', pysym.sbool(p.value) == anyweak))
    for name, g in goals:
      g = z3.simplify(g)
      if z3.is_true(g):
        rec.obligation('proved')
        continue
      r, m, _ = e.prove(g)
      if r == 'proved':
        rec.obligation('proved')
      elif r == 'unknown':
        rec.obligation('unknown', 'CheckIssuerKey ' + name)
      else:
        cexs.append((name, inputs_of(e, m)))
    if reach == 0:
      reach = 1
      rec.sample(dict(fn='CheckIssuerKey.Check', sigs=nsigs,
                      distinct_keys=len(keyinfo)))
  rec.reach(1, reach)
  seen = set()
  for name, cex in cexs:
    key = name.split(' ')[0]
    if key in seen:
      continue
    seen.add(key)
    bad, detail = replay_issuer()
    rec.replayed()
    rec.violation('ecdsa_sig_checks.CheckIssuerKey.Check', key, detail,
                  {k: str(v) for k, v in cex.items()},
                  dict(module='harness.props.c16', function='replay_issuer_cmd',
                       args={}), bad)
    if len(seen) >= 3:
      break


def replay_issuer():
  """Real CheckIssuerKey, real util, real protobufs; CheckAllEC is scripted
  (the real EC checks take minutes): every ordering of a weak and healthy
  issuer, shared and distinct keys, several severities."""
  pb, util, paranoid, sigc, ec_util, version = _mods(fakes=False)
  G = ec_util.CURVE_FACTORY[pb.CurveType.CURVE_SECP256R1]
  pts = [G.Multiply(G.g, k) for k in (2, 3, 5)]
  scripts = [
      # per distinct key: list of (check, result, severity)
      {0: [('CheckWeakCurve', True, 2)], 1: []},
      {0: [], 1: [('CheckWeakCurve', True, 2)]},
      {0: [('CheckWeakCurve', True, 2), ('CheckECKeySmallDifference', True,
                                         3)], 1: [], 2: []},
      {0: [('CheckValidECKey', True, 2)], 1: [('CheckWeakECPrivateKey', True,
                                                4)], 2: []},
  ]
  orders = [[0, 1, 0, 2, 1], [1, 0, 2], [2, 1, 0, 0], [0], [1, 1]]
  problems = []
  for script in scripts:
    for order in orders:
      order = [o for o in order if o in script]
      sigs = []
      for o in order:
        s = pb.ECDSASignature()
        s.issuer_key_info.curve_type = pb.CurveType.CURVE_SECP256R1
        s.issuer_key_info.x = util.Int2Bytes(int(pts[o][0]))
        s.issuer_key_info.y = util.Int2Bytes(int(pts[o][1]))
        sigs.append(s)

      def fake_all_ec(keys, log_level=0):
        for k in keys:
          pt = ec_util.PublicPoint(k.ec_info)
          o = [i for i in range(3) if tuple(map(int, pts[i])) == tuple(
              map(int, pt))][0]
          for name, res, sev in script[o]:
            util.SetTestResult(k.test_info, pb.TestResultsEntry(
                test_name=name, result=res, severity=sev))
          util.SetTestResult(k.test_info, pb.TestResultsEntry(
              test_name='CheckOther', result=False, severity=4))
        return True

      orig = paranoid.CheckAllEC
      paranoid.CheckAllEC = fake_all_ec
      try:
        ret = sigc.CheckIssuerKey().Check(sigs)
      except Exception as ex:  # pylint: disable=broad-except
        return True, 'raised %r' % (ex,)
      finally:
        paranoid.CheckAllEC = orig
      want_any = False
      for o, s in zip(order, sigs):
        pos = [sev for _, res, sev in script[o] if res]
        want = (bool(pos), max(pos) if pos else 0)
        want_any |= bool(pos)
        ents = [(r.result, r.severity) for r in s.test_info.test_results
                if r.test_name == 'CheckIssuerKey']
        if ents != [want] or s.test_info.weak != want[0]:
          problems.append('order %r script %r: signature of key %d has %r, '
                          'expected %r' % (order, script, o, ents, want))
      if bool(ret) != want_any:
        problems.append('return %r expected %r' % (ret, want_any))
  return bool(problems), (problems[0] if problems else 'consistent')


def replay_issuer_cmd():
  bad, detail = replay_issuer()
  print(detail)
  return bad


def jobs(tier, seed):
  thorough = tier == 'thorough'
  out = []
  for pre in (False, True):
    for nc in ([1, 2] if not thorough else [1, 2, 3]):
      out.append(Job('set_test_result_%s_%d' % ('pre' if pre else 'fresh', nc),
                     set_test_result_history, dict(ncalls=nc, pre=pre),
                     timeout=3000, cost=10**nc))
  out.append(Job('attach_history', attach_history, {}, timeout=3000, cost=30))
  for k in (0, 1, 3):
    out.append(Job('check_artifacts_%d' % k, check_artifacts, dict(nchecks=k),
                   timeout=600, cost=2))
  for ns_ in ([1, 2] if not thorough else [1, 2, 3]):
    out.append(Job('issuer_key_%d' % ns_, issuer_key, dict(nsigs=ns_),
                   timeout=3000, cost=20**ns_))
  out += checklevel.relational_jobs('C16', ('c16',), tier)
  return out
