"""C19 - number-theory / linear-algebra helpers return only true solutions."""
import itertools

import z3

from harness import common
from harness import pysym
from harness import stubs
from harness.common import T, TB, ivar, bvar, inputs_of
from harness.pysym import SInt, SBits, SReal
from harness.runner import Job

OUTSIDE = [
    'small_roots.* (sympy polynomials + LLL): not encodable',
    'Sieve (ground computation)',
    'UniformSumCdf / NormalCdf / BinomialCdf / Igamc / CombinedPValue '
    'numerics (floating point)',
    '2-adic routines for exponents k above the stated bound and n >= '
    '2^(2k+4) in the bit-vector encoding',
    'linear solver on shapes beyond those listed per job',
]
ASSUMPTIONS = []


def _mods():
  common.lib()
  from paranoid_crypto.lib import ntheory_util, linalg_util  # pylint: disable=g-import-not-at-top
  return ntheory_util, linalg_util


def _prove(rec, e, goal, what, cexs, tag, hints=(), timeout_ms=60000,
           use_defs=True):
  r, m, _ = e.prove(goal, hints=hints, timeout_ms=timeout_ms,
                    use_defs=use_defs)
  if r == 'proved':
    rec.obligation('proved')
    return True
  if r == 'unknown':
    rec.obligation('unknown', what)
    return False
  cexs.append((tag, inputs_of(e, m)))
  return False


# ---------------------------------------------------------------------------
# 2-adic routines on bit-vectors


def _low(t, k):
  """low k bits of bit-vector term t as a k-bit vector (k >= 1)."""
  return z3.Extract(k - 1, 0, t)


def twoadic(rec, seed, fn, k):
  nt, _ = _mods()
  nbits = 2 * k + 4
  width = 4 * k + 12 if k <= 10 else 6 * k + 16
  rec.functions('paranoid_crypto.lib.ntheory_util:%s' % fn)
  rec.bounds('every n with |n| < 2^%d (two\'s complement, width %d), k = %d' %
             (nbits, width, k))
  cexs = []
  reach = {}

  def run(e):
    n = bvar(e, 'n', width, lo=-(2**nbits) + 1, hi=2**nbits)
    e.notes['n'] = n
    return getattr(nt, fn)(n, k)

  with stubs.patched(nt, gmpy=stubs.GMPY, int=stubs.sym_int):
    for p in pysym.explore(run, max_paths=5000):
      e = p.eng
      rec.path(p.kind)
      if p.kind == 'abort':
        rec.inconclusive('path aborted: %s' % p.value)
        continue
      n = e.notes['n']
      odd = z3.Extract(0, 0, n.t) == 1
      mod8 = z3.Extract(2, 0, n.t) == 1
      if not common.overflow_free(rec, e, fn,
                                  30000 if k <= 10 else 900000):
        continue
      if p.kind == 'raise':
        cls = 'raise'
        if fn == 'Sqrt2exp' and isinstance(p.value, ValueError):
          # allowed exactly for even n (k >= 0 here)
          _prove(rec, e, z3.Not(odd), fn + ' ValueError only for even n',
                 cexs, 'raise_on_odd')
        else:
          r, m = e.feasible()
          if r == 'sat':
            cexs.append(('raised %r' % (p.value,), inputs_of(e, m)))
          elif r != 'unsat':
            rec.inconclusive('exception path undecided')
      elif fn == 'Inverse2exp':
        a = p.value
        if a is None:
          cls = 'none'
          _prove(rec, e, z3.Not(odd), 'None only for even n', cexs,
                 'none_on_odd')
        else:
          cls = 'value'
          at = TB(a, width)
          # defining congruence only: a*n == 1 (mod 2^k); the docstring does
          # not promise a reduced representative (Inverse2exp(3, 1) == 3)
          goal = odd
          if k >= 1:
            goal = z3.And(goal, _low(at * n.t - 1, k) == 0)
          _prove(rec, e, goal, 'a*n == 1 mod 2^k', cexs, 'bad_inverse')
      elif fn == 'InverseSqrt2exp':
        a = p.value
        exists = z3.BoolVal(False) if k >= 1 else z3.BoolVal(False)
        if k == 0:
          # modulus 1: a*a*n % 1 == 1 never holds
          has = z3.BoolVal(False)
        elif k < 3:
          has = z3.Or([_low(z3.BitVecVal(c * c, width) * n.t, k) == 1
                       for c in range(2**k)])
        else:
          has = mod8
        if a is None:
          cls = 'none'
          _prove(rec, e, z3.Not(has), 'None only if no solution', cexs,
                 'none_but_solvable')
        else:
          cls = 'value'
          at = TB(a, width)
          goal = z3.And(at >= 0, at < 2**k)
          if k >= 1:
            goal = z3.And(goal, _low(at * at * n.t, k) == 1)
          else:
            goal = z3.BoolVal(False)
          _prove(rec, e, goal, 'a*a*n == 1 mod 2^k', cexs, 'bad_invsqrt')
      else:  # Sqrt2exp
        roots = p.value
        if k < 3:
          cands = [c for c in range(2**k)]
          want = [(c, (_low(z3.BitVecVal(c * c, width) - n.t, k) == 0)
                   if k >= 1 else z3.BoolVal(True)) for c in cands]
          cls = 'small'
          # result is exactly the list of roots in [0, 2^k)
          got = [TB(x, width) for x in roots]
          for c, isroot in want:
            member = z3.Or([g == c for g in got]) if got else z3.BoolVal(
                False)
            _prove(rec, e, member == isroot, 'root membership k<3', cexs,
                   'small_k_roots')
        elif len(roots) == 0:
          cls = 'none'
          _prove(rec, e, z3.Not(mod8), '[] only if n % 8 != 1', cexs,
                 'empty_but_solvable')
        else:
          cls = 'roots'
          got = [TB(x, width) for x in roots]
          goal = z3.BoolVal(len(got) == 4)
          for g in got:
            goal = z3.And(goal, g >= 0, g < 2**k,
                          _low(g * g - n.t, k) == 0)
          goal = z3.And(goal, z3.Distinct(*got)) if len(got) > 1 else goal
          goal = z3.And(goal, mod8)
          _prove(rec, e, goal, 'four distinct roots', cexs, 'bad_roots')
      if cls not in reach:
        r, m = e.feasible()
        if r == 'sat':
          reach[cls] = inputs_of(e, m)
          rec.sample(dict(fn=fn, k=k, cls=cls, witness=reach[cls]))
  rec.reach(1, 1 if reach else 0)
  for tag, cex in cexs[:3]:
    bad = replay_twoadic(fn, cex['n'], k)
    rec.replayed()
    rec.violation('ntheory_util.' + fn, tag,
                  'result violates the defining congruence', dict(cex, k=k),
                  dict(module='harness.props.c19', function='replay_twoadic',
                       args=dict(fn=fn, n=str(cex['n']), k=k)), bad)


def replay_twoadic(fn, n, k):
  nt, _ = _mods()
  n, k = int(n), int(k)
  M = 2**k
  try:
    res = getattr(nt, fn)(n, k)
  except ValueError:
    print(fn, n, k, 'ValueError')
    return not (fn == 'Sqrt2exp' and n % 2 == 0)
  except Exception as ex:  # pylint: disable=broad-except
    print(fn, n, k, 'raised', repr(ex))
    return True
  print('%s(%d, %d) = %r' % (fn, n, k, res))
  if fn == 'Inverse2exp':
    if res is None:
      return n % 2 == 1
    return not (n % 2 == 1 and (res * n - 1) % M == 0)
  if fn == 'InverseSqrt2exp':
    sols = [a for a in range(min(M, 8))
            if a * a * n % M == 1] if k < 3 else ([1] if n % 8 == 1 else [])
    if res is None:
      return bool(sols)
    return not (0 <= res < M and res * res * n % M == 1 and M > 1)
  want = sorted(x for x in range(M) if (x * x - n) % M == 0) if k <= 12 else None
  got = sorted(int(x) for x in res)
  if want is not None:
    return got != want
  return not (len(set(got)) == 4 and all((x * x - n) % M == 0 for x in got))


# ---------------------------------------------------------------------------
# continued fractions, rounded division, product trees


def continued_fraction(rec, seed, maxq):
  nt, _ = _mods()
  rec.functions('paranoid_crypto.lib.ntheory_util:ContinuedFraction')
  rec.bounds('all integers a >= 0, b >= 0 (unbounded) whose expansion has at '
             'most %d quotients (longer expansions: bound-hit, outside)' % maxq)
  cexs = []
  reach = {}

  def run(e):
    a = ivar(e, 'a', lo=0)
    b = ivar(e, 'b', lo=0)
    e.notes.update(a=a, b=b)
    return nt.ContinuedFraction(a, b)

  # each loop iteration costs two decisions (b != 0, divisor != 0)
  for p in pysym.explore(run, max_decisions=2 * maxq + 2):
    e = p.eng
    if p.kind == 'abort' and str(p.value).startswith('bound-hit'):
      rec.path('bound-hit')
      continue
    rec.path(p.kind)
    if p.kind != 'return':
      rec.inconclusive('unexpected %s: %r' % (p.kind, p.value))
      continue
    a, b = e.notes['a'], e.notes['b']
    res = p.value
    L = len(res)
    # definition: a_0 = a, b_0 = b, q_i = floor(a_i/b_i), (a,b) <- (b, a-q b)
    goals = []
    ai, bi = a.t, b.t
    rp, tp = z3.IntVal(1), z3.IntVal(0)  # r_{-1}, t_{-1}
    rpp, tpp = z3.IntVal(0), z3.IntVal(1)
    for i, (q, r, t) in enumerate(res):
      qt, rt, tt = T(q), T(r), T(t)
      goals.append(('floor', z3.And(bi > 0, qt * bi <= ai,
                                    ai < (qt + 1) * bi)))
      goals.append(('recurrence', z3.And(rt == qt * rp + rpp,
                                         tt == qt * tp + tpp)))
      goals.append(('determinant',
                    rt * tp - rp * tt == (1 if i % 2 == 1 else -1)))
      rpp, tpp, rp, tp = rp, tp, rt, tt
      ai, bi = bi, ai - qt * bi
    goals.append(('terminates_at_zero', bi == 0))
    if L:
      goals.append(('last_convergent_is_a_over_b', rp * b.t == tp * a.t))
    for name, g in goals:
      _prove(rec, e, g, 'ContinuedFraction ' + name, cexs, name)
    if L not in reach:
      r, m = e.feasible()
      if r == 'sat':
        reach[L] = inputs_of(e, m)
        rec.sample(dict(fn='ContinuedFraction', quotients=L,
                        witness=reach[L]))
  rec.reach(maxq + 1, len(reach))
  for tag, cex in cexs[:3]:
    bad = replay_cf(cex['a'], cex['b'])
    rec.replayed()
    rec.violation('ntheory_util.ContinuedFraction', tag,
                  'convergents differ from the definition', cex,
                  dict(module='harness.props.c19', function='replay_cf',
                       args=dict(a=str(cex['a']), b=str(cex['b']))), bad)


def replay_cf(a, b):
  from fractions import Fraction  # pylint: disable=g-import-not-at-top
  nt, _ = _mods()
  a, b = int(a), int(b)
  res = nt.ContinuedFraction(a, b)
  print('ContinuedFraction(%d, %d) = %r' % (a, b, res))
  # reference
  qs = []
  x, y = a, b
  while y:
    qs.append(x // y)
    x, y = y, x % y
  if [int(q) for q, _, _ in res] != qs:
    return True
  for i in range(len(qs)):
    f = Fraction(qs[i])
    for q in reversed(qs[:i]):
      f = q + 1 / f
    if Fraction(int(res[i][1]), int(res[i][2])) != f or \
        (int(res[i][1]), int(res[i][2])) != (f.numerator, f.denominator):
      return True
  return False


def divmod_rounded(rec, seed):
  nt, _ = _mods()
  rec.functions('paranoid_crypto.lib.ntheory_util:DivmodRounded')
  rec.bounds('all integers a, all b >= 1 (unbounded Int)')
  cexs = []
  reach = 0

  def run(e):
    a = ivar(e, 'a')
    b = ivar(e, 'b', lo=1)
    e.notes.update(a=a, b=b)
    return nt.DivmodRounded(a, b)

  for p in pysym.explore(run):
    e = p.eng
    rec.path(p.kind)
    if p.kind != 'return':
      r, m = e.feasible()
      if r != 'unsat':
        rec.inconclusive('unexpected %s %r' % (p.kind, p.value))
      continue
    a, b = e.notes['a'], e.notes['b']
    q, r_ = p.value
    # q = round(a/b) (ties either way), r = a - q*b:  |2r| <= b
    goal = z3.And(a.t == T(q) * b.t + T(r_), 2 * T(r_) <= b.t,
                  -2 * T(r_) <= b.t)
    _prove(rec, e, goal, 'DivmodRounded', cexs, 'rounded')
    r, m = e.feasible()
    if r == 'sat':
      reach += 1
      rec.sample(dict(fn='DivmodRounded', witness=inputs_of(e, m)))
  rec.reach(1, min(reach, 1))
  for tag, cex in cexs[:2]:
    q, r_ = nt.DivmodRounded(cex['a'], cex['b'])
    bad = not (cex['a'] == q * cex['b'] + r_ and abs(2 * r_) <= cex['b'])
    rec.replayed()
    rec.violation('ntheory_util.DivmodRounded', tag,
                  'not the rounded quotient/remainder', cex,
                  dict(module='harness.props.c19', function='replay_dr',
                       args=dict(a=str(cex['a']), b=str(cex['b']))), bad)


def replay_dr(a, b):
  nt, _ = _mods()
  a, b = int(a), int(b)
  q, r_ = nt.DivmodRounded(a, b)
  print('DivmodRounded(%d,%d) = (%d,%d)' % (a, b, q, r_))
  return not (a == q * b + r_ and abs(2 * r_) <= b)


def product_trees(rec, seed, k):
  nt, _ = _mods()
  rec.functions('paranoid_crypto.lib.ntheory_util:FastProduct',
                'paranoid_crypto.lib.ntheory_util:ExtendedProductTree')
  rec.bounds('list of exactly %d unbounded symbolic integers' % k)
  cexs = []

  def run(e):
    vs = [ivar(e, 'v%d' % i) for i in range(k)]
    e.notes['vs'] = vs
    fp = nt.FastProduct(list(vs))
    tree, t = nt.ExtendedProductTree(list(vs))
    return fp, tree, t

  for p in pysym.explore(run, max_paths=4):
    e = p.eng
    rec.path(p.kind)
    if p.kind != 'return':
      rec.inconclusive('unexpected %s %r' % (p.kind, p.value))
      continue
    vs = [v.t for v in e.notes['vs']]
    fp, tree, t = p.value
    prod = z3.IntVal(1)
    for v in vs:
      prod = prod * v
    goals = [('FastProduct', T(fp) == prod)]
    tsum = z3.IntVal(0)
    for i in range(k):
      m = z3.IntVal(1)
      for j in range(k):
        if j != i:
          m = m * vs[j]
      tsum = tsum + m
    goals.append(('T', T(t) == tsum))
    goals.append(('root', (T(tree[-1][0]) == prod) if k else z3.BoolVal(
        tree == [[]])))
    # every level: node j is the product of its two children
    lv_ok = z3.BoolVal(True)
    for lo, hi in zip(tree, tree[1:]):
      for j in range(len(hi)):
        c = T(lo[2 * j]) * (T(lo[2 * j + 1]) if 2 * j + 1 < len(lo) else 1)
        lv_ok = z3.And(lv_ok, T(hi[j]) == c)
      lv_ok = z3.And(lv_ok, z3.BoolVal(len(hi) == (len(lo) + 1) // 2))
    goals.append(('levels', lv_ok))
    for name, g in goals:
      s = z3.Solver()
      s.set('timeout', 120000)
      s.add(z3.Not(g))
      import time as _t  # pylint: disable=g-import-not-at-top
      t0 = _t.time()
      r = str(s.check())
      pysym.STATS.add(r, _t.time() - t0)
      if r == 'unsat':
        rec.obligation('proved')
      elif r == 'unknown':
        rec.obligation('unknown', 'product tree %s k=%d' % (name, k))
      else:
        cexs.append((name, {('v%d' % i): pysym.model_int(s.model(), vs[i])
                            for i in range(k)}))
    rec.sample(dict(fn='ExtendedProductTree', k=k, levels=len(tree)))
  rec.reach(1, 1)
  for tag, cex in cexs[:2]:
    vals = [cex['v%d' % i] for i in range(k)]
    bad = replay_trees(vals)
    rec.replayed()
    rec.violation('ntheory_util.ExtendedProductTree', tag,
                  'product tree value differs from its definition',
                  dict(values=vals),
                  dict(module='harness.props.c19', function='replay_trees',
                       args=dict(values=vals)), bad)


def replay_trees(values):
  import math  # pylint: disable=g-import-not-at-top
  nt, _ = _mods()
  values = [int(v) for v in values]
  fp = nt.FastProduct(list(values))
  tree, t = nt.ExtendedProductTree(list(values))
  P = math.prod(values)
  ts = sum(math.prod(values[:i] + values[i + 1:]) for i in range(len(values)))
  print('FastProduct', fp, 'P', P, 'T', t, 'expected', ts)
  return fp != P or t != ts or (values and tree[-1][0] != P)


# ---------------------------------------------------------------------------
# PseudoAverage


def pseudo_average(rec, seed, m, nmax):
  common.lib()
  from paranoid_crypto.lib.randomness_tests import lattice_suite  # pylint: disable=g-import-not-at-top
  rec.functions('paranoid_crypto.lib.randomness_tests.lattice_suite:'
                'PseudoAverage')
  rec.bounds('residue lists of length %d, modulus 1 <= n <= %d symbolic, '
             'residues 0 <= a_i < n symbolic' % (m, nmax))
  cexs = []
  reach = 0

  def sym_sorted(xs):
    xs = list(xs)
    # insertion sort: comparisons fork
    out = []
    for x in xs:
      i = len(out)
      while i > 0 and x < out[i - 1]:
        i -= 1
      out.insert(i, x)
    return out

  def run(e):
    n = ivar(e, 'n', lo=1, hi=nmax + 1)
    a = [ivar(e, 'a%d' % i, lo=0) for i in range(m)]
    for x in a:
      e.assume(x.t < n.t)
    e.notes.update(n=n, a=a)
    return lattice_suite.PseudoAverage(list(a), n)

  with stubs.patched(lattice_suite, sorted=sym_sorted, sum=_sym_sum):
    for p in pysym.explore(run, max_paths=20000):
      e = p.eng
      rec.path(p.kind)
      if p.kind != 'return':
        r, mdl = e.feasible()
        if r != 'unsat':
          rec.inconclusive('unexpected %s %r' % (p.kind, p.value))
        continue
      n, a = e.notes['n'], e.notes['a']
      res = T(p.value)
      # definition: some lifting b_i in {a_i, a_i+n} of minimal variance
      # (m * sum b^2 - (sum b)^2 minimal) whose rounded mean mod n is res
      liftings = list(itertools.product([0, 1], repeat=m))

      def var_of(sel):
        bs = [a[i].t + (n.t if sel[i] else 0) for i in range(m)]
        s1 = sum(bs[1:], bs[0])
        s2 = sum((x * x for x in bs[1:]), bs[0] * bs[0])
        return m * s2 - s1 * s1, s1

      vs = [var_of(sel) for sel in liftings]
      alts = []
      for (v, s1) in vs:
        minimal = z3.And([v <= v2 for (v2, _) in vs])
        mean = ((s1 + m // 2) / m) % n.t
        alts.append(z3.And(minimal, res == mean))
      _prove(rec, e, z3.Or(alts), 'PseudoAverage', cexs, 'pseudo_average',
             timeout_ms=120000)
      if reach < 3:
        r, mdl = e.feasible()
        if r == 'sat':
          reach += 1
          rec.sample(dict(fn='PseudoAverage', witness=inputs_of(e, mdl)))
  rec.reach(1, min(reach, 1))
  for tag, cex in cexs[:3]:
    vals = [cex['a%d' % i] for i in range(m)]
    bad = replay_pa(vals, cex['n'])
    rec.replayed()
    rec.violation('lattice_suite.PseudoAverage', tag,
                  'not the rounded mean of a minimal-variance lifting',
                  dict(a=vals, n=cex['n']),
                  dict(module='harness.props.c19', function='replay_pa',
                       args=dict(a=vals, n=cex['n'])), bad)


def _sym_sum(xs, start=0):
  r = start
  for x in xs:
    r = r + x
  return r


def replay_pa(a, n):
  common.lib()
  from paranoid_crypto.lib.randomness_tests import lattice_suite  # pylint: disable=g-import-not-at-top
  a = [int(x) for x in a]
  n = int(n)
  m = len(a)
  got = lattice_suite.PseudoAverage(list(a), n)
  best = None
  oks = set()
  for sel in itertools.product([0, 1], repeat=m):
    bs = [a[i] + n * sel[i] for i in range(m)]
    v = m * sum(x * x for x in bs) - sum(bs)**2
    if best is None or v < best:
      best = v
      oks = set()
    if v == best:
      oks.add((sum(bs) + m // 2) // m % n)
  print('PseudoAverage(%r, %d) = %d; admissible %r' % (a, n, got, oks))
  return got not in oks


# ---------------------------------------------------------------------------
# rational linear solver


def _goal_ax_eq_b(A_terms, b_terms, xs, real):
  """A*x == b over the rationals; A_terms/b_terms z3 terms (Int or Real)."""
  goal = z3.BoolVal(True)
  xt = [pysym._to_sreal(x).t for x in xs]
  conv = (lambda t: t) if real else z3.ToReal
  for row, bi in zip(A_terms, b_terms):
    lhs = z3.RealVal(0)
    for a, x in zip(row, xt):
      lhs = lhs + conv(a) * x
    goal = z3.And(goal, lhs == conv(bi))
  return goal


def solve_right_field(rec, seed, rows, cols):
  """Row logic of echelon_form/solve_right over an abstract field (reals)."""
  _, la = _mods()
  rec.functions('paranoid_crypto.lib.linalg_util:solve_right',
                'paranoid_crypto.lib.linalg_util:echelon_form',
                'paranoid_crypto.lib.linalg_util:upper_triangular_solve')
  rec.bounds('every %dx%d matrix A and vector x0 over an ordered field '
             '(z3 Real), b := A*x0; all paths (zero pivots, zero rows, '
             'dependent rows arise as forks on == 0)' % (rows, cols))
  stubs.USED.add('"//" on field elements = exact division (assumes the '
                 'fraction-free integer divisions are exact; the integer '
                 'semantics is decided by the solve_right_int/family jobs)')
  cexs = []
  reach = {}

  def run(e):
    A = [[common.rvar(e, 'a%d_%d' % (i, j)) for j in range(cols)]
         for i in range(rows)]
    x0 = [common.rvar(e, 'x%d' % j) for j in range(cols)]
    b = []
    for i in range(rows):
      s = 0
      for j in range(cols):
        s = s + A[i][j] * x0[j]
      b.append(s)
    e.notes.update(A=A, b=b, x0=x0)
    return la.solve_right([list(r) for r in A], list(b))

  with stubs.patched(la, gmpy=stubs.GMPY, all=_sym_all, sum=_sym_sum):
    for p in pysym.explore(run, max_paths=200000):
      e = p.eng
      rec.path(p.kind)
      if p.kind == 'abort':
        rec.inconclusive('path aborted: %s' % p.value)
        continue
      A, b = e.notes['A'], e.notes['b']
      if p.kind == 'raise':
        r, m = e.feasible()
        if r == 'sat':
          cexs.append(('raised %r' % (p.value,), inputs_of(e, m)))
        elif r != 'unsat':
          rec.inconclusive('exception path undecided')
        continue
      if p.value is None:
        cls = 'none'
      else:
        cls = 'solution'
        if len(p.value) != cols:
          goal = z3.BoolVal(False)
        else:
          goal = _goal_ax_eq_b([[x.t for x in r] for r in A],
                               [T(x) for x in b], p.value, True)
        _prove(rec, e, goal, 'field A*x == b %dx%d' % (rows, cols), cexs,
               'non_solution', timeout_ms=120000)
      if cls not in reach:
        r, m = e.feasible()
        if r == 'sat':
          reach[cls] = True
          rec.sample(dict(fn='solve_right(field)', shape=[rows, cols],
                          cls=cls, witness=inputs_of(e, m)))
  rec.reach(2, len(reach))
  _report_linalg(rec, cexs, rows, cols, rational=True)


def _frac(v):
  from fractions import Fraction  # pylint: disable=g-import-not-at-top
  if isinstance(v, tuple):
    return Fraction(v[0], v[1])
  return Fraction(v)


def _report_linalg(rec, cexs, rows, cols, rational=False):
  seen = set()
  for tag, cex in cexs:
    Ac = [[cex['a%d_%d' % (i, j)] for j in range(cols)] for i in range(rows)]
    x0 = [cex['x%d' % j] for j in range(cols)]
    if rational:
      # scale the rational witness to integers (solution set is homogeneous
      # in (A, b) row-wise; x0 scaled separately)
      import math  # pylint: disable=g-import-not-at-top
      Af = [[_frac(v) for v in r] for r in Ac]
      xf = [_frac(v) for v in x0]
      la_ = math.lcm(*[f.denominator for r in Af for f in r])
      lx = math.lcm(*[f.denominator for f in xf])
      Ac = [[int(f * la_) for f in r] for r in Af]
      x0 = [int(f * lx) for f in xf]
    bad, tags = replay_solve(Ac, x0)
    key = (tag.split(' ')[0], tuple(tags))
    if key in seen:
      continue
    seen.add(key)
    rec.replayed()
    rec.violation('linalg_util.solve_right', 'non_solution' if not
                  tag.startswith('raised') else 'raises',
                  'returned vector does not satisfy the consistent system'
                  if not tag.startswith('raised') else tag,
                  dict(A=Ac, x0=x0),
                  dict(module='harness.props.c19', function='replay_solve_cmd',
                       args=dict(A=Ac, x0=x0)), bad, tags=tags)
    if len(seen) >= 4:
      break


def solve_right_int(rec, seed, rows, cols, lo, hi):
  """Integer semantics, everything symbolic (small shapes only)."""
  _, la = _mods()
  rec.functions('paranoid_crypto.lib.linalg_util:solve_right',
                'paranoid_crypto.lib.linalg_util:echelon_form',
                'paranoid_crypto.lib.linalg_util:upper_triangular_solve')
  rec.bounds('all %dx%d integer matrices A and solutions x0 with entries in '
             '[%d, %d], b := A*x0; Python integer semantics (floor division '
             'with Euclidean witnesses); all paths' % (rows, cols, lo, hi))
  cexs = []
  reach = {}

  def run(e):
    A = [[ivar(e, 'a%d_%d' % (i, j), lo=lo, hi=hi + 1) for j in range(cols)]
         for i in range(rows)]
    x0 = [ivar(e, 'x%d' % j, lo=lo, hi=hi + 1) for j in range(cols)]
    b = []
    for i in range(rows):
      s = 0
      for j in range(cols):
        s = s + A[i][j] * x0[j]
      b.append(s)
    e.notes.update(A=A, b=b)
    return la.solve_right([list(r) for r in A], list(b))

  with stubs.patched(la, gmpy=stubs.GMPY, all=_sym_all, sum=_sym_sum):
    for p in pysym.explore(run, max_paths=100000):
      e = p.eng
      rec.path(p.kind)
      if p.kind == 'abort':
        rec.inconclusive('path aborted: %s' % p.value)
        continue
      A, b = e.notes['A'], e.notes['b']
      if p.kind == 'raise':
        r, m = e.feasible()
        if r == 'sat':
          cexs.append(('raised %r' % (p.value,), inputs_of(e, m)))
        elif r != 'unsat':
          rec.inconclusive('exception path undecided')
        continue
      if p.value is None:
        cls = 'none'
      else:
        cls = 'solution'
        goal = _goal_ax_eq_b([[x.t for x in r] for r in A],
                             [T(x) for x in b], p.value, False) if len(
                                 p.value) == cols else z3.BoolVal(False)
        _prove(rec, e, goal, 'A*x == b %dx%d' % (rows, cols), cexs,
               'non_solution', timeout_ms=120000)
      if cls not in reach:
        r, m = e.feasible()
        if r == 'sat':
          reach[cls] = True
          rec.sample(dict(fn='solve_right', shape=[rows, cols], cls=cls,
                          witness=inputs_of(e, m)))
  rec.reach(2, len(reach))
  _report_linalg(rec, cexs, rows, cols)


def _family(rows, cols, kind, seed, count, part, parts):
  """Concrete coefficient matrices."""
  import random  # pylint: disable=g-import-not-at-top
  if kind == 'exhaustive11':
    allm = itertools.product([-1, 0, 1], repeat=rows * cols)
    for idx, flat in enumerate(allm):
      if idx % parts == part:
        yield [list(flat[i * cols:(i + 1) * cols]) for i in range(rows)]
    return
  rng = random.Random(seed * 7919 + rows * 100 + cols * 10 + part)
  for _ in range(count):
    A = [[rng.randint(-2, 2) for _ in range(cols)] for _ in range(rows)]
    # inject 0..2 zero rows and 0..2 rows that are multiples / sums of others
    for _ in range(rng.randint(0, 2)):
      A[rng.randrange(rows)] = [0] * cols
    for _ in range(rng.randint(0, 2)):
      i, j, k = (rng.randrange(rows) for _ in range(3))
      c, d = rng.randint(-2, 2), rng.randint(-1, 1)
      A[i] = [c * A[j][t] + d * A[k][t] for t in range(cols)]
    # sometimes force zero pivots
    if rng.random() < 0.5:
      for t in range(rng.randint(1, 2)):
        A[rng.randrange(rows)][rng.randrange(min(2, cols))] = 0
    yield A


def solve_right_family(rec, seed, rows, cols, kind, count, part, parts):
  """A ranges over a concrete family, x0 is universally quantified (unbounded
  integers): the solver decides A*x == b for every right-hand side in the
  column space."""
  _, la = _mods()
  rec.functions('paranoid_crypto.lib.linalg_util:solve_right',
                'paranoid_crypto.lib.linalg_util:echelon_form',
                'paranoid_crypto.lib.linalg_util:upper_triangular_solve')
  rec.bounds('%dx%d coefficient matrices from family %s (part %d/%d%s), for '
             'EVERY integer solution vector x0 (unbounded Int), b := A*x0; '
             'Python integer semantics' %
             (rows, cols, kind, part, parts,
              '' if kind == 'exhaustive11' else ', %d seeded samples with '
              'injected zero/dependent rows and zero pivots' % count))
  cexs = []
  nmat = 0
  nsol = 0
  with stubs.patched(la, gmpy=stubs.GMPY, all=_sym_all, sum=_sym_sum):
    for Ac in _family(rows, cols, kind, seed, count, part, parts):
      nmat += 1

      def run(e, Ac=Ac):
        x0 = [ivar(e, 'x%d' % j) for j in range(cols)]
        b = []
        for i in range(rows):
          s = 0
          for j in range(cols):
            s = s + Ac[i][j] * x0[j]
          b.append(s)
        e.notes.update(b=b)
        return la.solve_right([list(r) for r in Ac], list(b))

      for p in pysym.explore(run, max_paths=64):
        e = p.eng
        rec.path(p.kind)
        if p.kind == 'abort':
          rec.inconclusive('path aborted: %s' % p.value)
          continue
        if p.kind == 'raise':
          r, m = e.feasible()
          if r == 'sat':
            cexs.append(('raised %r' % (p.value,), Ac, inputs_of(e, m)))
          elif r != 'unsat':
            rec.inconclusive('exception path undecided')
          continue
        if p.value is None:
          continue
        nsol += 1
        b = e.notes['b']
        goal = _goal_ax_eq_b([[z3.IntVal(v) for v in r] for r in Ac],
                             [T(x) for x in b], p.value, False) if len(
                                 p.value) == cols else z3.BoolVal(False)
        r, m, _ = e.prove(goal, timeout_ms=60000)
        if r == 'proved':
          rec.obligation('proved')
        elif r == 'unknown':
          rec.obligation('unknown', 'family %r' % (Ac,))
        else:
          cexs.append(('non_solution', Ac, inputs_of(e, m)))
        if nsol <= 2:
          rec.sample(dict(fn='solve_right', A=Ac, x0='symbolic',
                          verdict=r))
  rec.note('%d matrices, %d with a returned solution' % (nmat, nsol))
  rec.reach(1, 1 if nsol else 0)
  seen = set()
  for tag, Ac, cex in cexs:
    x0 = [cex['x%d' % j] for j in range(cols)]
    bad, tags = replay_solve(Ac, x0)
    key = (tag.split(' ')[0], tuple(tags))
    if key in seen:
      continue
    seen.add(key)
    rec.replayed()
    rec.violation('linalg_util.solve_right', 'non_solution' if not
                  tag.startswith('raised') else 'raises',
                  'returned vector does not satisfy the consistent system'
                  if not tag.startswith('raised') else tag,
                  dict(A=Ac, x0=x0),
                  dict(module='harness.props.c19', function='replay_solve_cmd',
                       args=dict(A=Ac, x0=x0)), bad, tags=tags)
    if len(seen) >= 6:
      break


def replay_solve_cmd(A, x0):
  return replay_solve(A, x0)[0]


def _sym_all(xs):
  for x in xs:
    if not x:
      return False
  return True


def replay_solve(A, x0):
  """Returns (violates, tags)."""
  from fractions import Fraction  # pylint: disable=g-import-not-at-top
  _, la = _mods()
  A = [[int(v) for v in r] for r in A]
  x0 = [int(v) for v in x0]
  b = [sum(r[j] * x0[j] for j in range(len(x0))) for r in A]
  tags = ['shape_%dx%d' % (len(A), len(A[0]))]
  # classify: does the matrix contain zero / dependent rows?
  if any(all(v == 0 for v in r) for r in A):
    tags.append('has_zero_row')
  rank = _rank(A)
  if rank < len(A):
    tags.append('has_dependent_rows')
  try:
    xs = la.solve_right([list(r) for r in A], list(b))
  except Exception as ex:  # pylint: disable=broad-except
    print('solve_right raised', repr(ex))
    return True, tags + ['raises']
  print('A=%r b=%r -> %r' % (A, b, xs))
  if xs is None:
    return False, tags
  xs = [Fraction(int(x.numerator), int(x.denominator)) for x in xs]
  for r, bi in zip(A, b):
    if sum(Fraction(r[j]) * xs[j] for j in range(len(xs))) != bi:
      return True, tags
  return False, tags


def _rank(A):
  from fractions import Fraction  # pylint: disable=g-import-not-at-top
  M = [[Fraction(v) for v in r] for r in A]
  rank = 0
  rows, cols = len(M), len(M[0])
  for c in range(cols):
    piv = None
    for r in range(rank, rows):
      if M[r][c] != 0:
        piv = r
        break
    if piv is None:
      continue
    M[rank], M[piv] = M[piv], M[rank]
    for r in range(rows):
      if r != rank and M[r][c] != 0:
        f = M[r][c] / M[rank][c]
        M[r] = [x - f * y for x, y in zip(M[r], M[rank])]
    rank += 1
  return rank


def jobs(tier, seed):
  from harness import selftest  # pylint: disable=g-import-not-at-top
  thorough = tier == 'thorough'
  out = [Job('engine_selftest_%s' % w, selftest.validate, dict(which=w),
             timeout=900, cost=5) for w in ('ntheory', 'linalg')]
  kmax = 10 if not thorough else 16
  for fn in ('Inverse2exp', 'InverseSqrt2exp', 'Sqrt2exp'):
    for k in range(0, kmax + 1):
      out.append(Job('%s_k%d' % (fn, k), twoadic, dict(fn=fn, k=k),
                     timeout=3000 if thorough else 400, cost=1.5**k))
  out.append(Job('continued_fraction', continued_fraction,
                 dict(maxq=4 if not thorough else 6), timeout=3000, cost=30))
  out.append(Job('divmod_rounded', divmod_rounded, {}, timeout=300, cost=1))
  for k in (list(range(0, 18)) if not thorough else list(range(0, 34))):
    out.append(Job('product_tree_k%d' % k, product_trees, dict(k=k),
                   timeout=1200, cost=k / 4.0))
  for m in ([1, 2, 3] if not thorough else [1, 2, 3, 4]):
    out.append(Job('pseudo_average_m%d' % m, pseudo_average,
                   dict(m=m, nmax=64), timeout=3000, cost=4**m))
  # linear solver
  shapes = [(2, 2), (3, 2), (3, 3)] + ([(4, 3), (4, 2), (5, 2)]
                                       if thorough else [])
  for (r, c) in shapes:
    out.append(Job('solve_field_%dx%d' % (r, c), solve_right_field,
                   dict(rows=r, cols=c), timeout=3000,
                   cost=5**(r + c - 4)))
  for (r, c) in [(2, 2), (3, 2)]:
    out.append(Job('solve_int_%dx%d' % (r, c), solve_right_int,
                   dict(rows=r, cols=c, lo=-2, hi=2), timeout=1200, cost=4))
  parts = 8
  for part in range(parts):
    out.append(Job('solve_family_3x3_all_p%d' % part, solve_right_family,
                   dict(rows=3, cols=3, kind='exhaustive11', count=0,
                        part=part, parts=parts), timeout=3000, cost=40))
  fam = [(4, 3), (5, 3), (5, 4), (6, 4)] + ([(7, 4), (6, 5), (8, 5)]
                                            if thorough else [])
  for (r, c) in fam:
    for part in range(2 if not thorough else 8):
      out.append(Job('solve_family_%dx%d_p%d' % (r, c, part),
                     solve_right_family,
                     dict(rows=r, cols=c, kind='templates',
                          count=400 if not thorough else 2500, part=part,
                          parts=1), timeout=3000, cost=20))
  return out
