"""C15 - bit-sequence primitives match their definitions."""
import itertools

import z3

from harness import common
from harness import pysym
from harness import stubs
from harness import symbytes
from harness.common import T, TB, bvar, inputs_of, ivar
from harness.pysym import SBits
from harness.runner import Job

OUTSIDE = [
    'ReverseBits (C-level bytes.translate)',
    'FrequencyCount / SubSequences beyond the stated lengths: the counters '
    'are indexed by the symbolic window, which concretises (one path per '
    'string); the fast path (50*2^m < length) only with <= 8 symbolic bits '
    'over fixed backgrounds',
    'Scatter beyond 8 bits (format(seq, "b") concretises)',
    'binary matrix rank beyond 4x4 / 5x3 fully symbolic and the >= 50-row '
    'dispatch itself (both implementations are called directly)',
    'widths above 64 bits for the shift/and kernels',
]
ASSUMPTIONS = []


def _util():
  common.lib()
  from paranoid_crypto.lib.randomness_tests import util  # pylint: disable=g-import-not-at-top
  return util


def _bit(t, i):
  return z3.Extract(i, i, t) == 1


def _prove(rec, e, goal, what, cexs, tag):
  r, m, _ = e.prove(goal, timeout_ms=120000)
  if r == 'proved':
    rec.obligation('proved')
  elif r == 'unknown':
    rec.obligation('unknown', what)
  else:
    cexs.append((tag, inputs_of(e, m)))


def _patches(util):
  return dict(gmpy=stubs.GMPY, int=symbytes.SymInt)


def _count(conds, w):
  s = z3.BitVecVal(0, w)
  for c in conds:
    s = s + z3.If(c, z3.BitVecVal(1, w), z3.BitVecVal(0, w))
  return s


def shift_kernels(rec, seed, width, fn):
  """Runs / LongestRunOfOnes / OverlappingRunsOfOnes / BitCount."""
  util = _util()
  W = width + 8
  rec.functions('paranoid_crypto.lib.randomness_tests.util:%s' % fn)
  rec.bounds('every bit string of %d bits (bit-vector width %d)%s' %
             (width, W, {'Runs': ', length in {0, width-2, width-1, width}',
                         'OverlappingRunsOfOnes': ', m in 1..min(width+1, 12)'
                        }.get(fn, '')))
  cexs = []
  reach = 0
  params = [None]
  if fn == 'Runs':
    params = [0, max(1, width - 2), max(1, width - 1), width]
  elif fn == 'OverlappingRunsOfOnes':
    params = list(range(1, min(width + 1, 12) + 1))
  with stubs.patched(util, **_patches(util)):
    for prm in params:

      def run(e, prm=prm):
        hi = 2**width
        if fn == 'Runs':
          hi = 2**prm
        s = bvar(e, 's', W, lo=0, hi=hi)
        e.notes['s'] = s
        if fn == 'Runs':
          return util.Runs(s, prm)
        if fn == 'OverlappingRunsOfOnes':
          return util.OverlappingRunsOfOnes(s, prm)
        if fn == 'LongestRunOfOnes':
          return util.LongestRunOfOnes(s)
        return util.BitCount(s)

      for p in pysym.explore(run, max_paths=5000):
        e = p.eng
        rec.path(p.kind)
        if p.kind != 'return':
          r, m = e.feasible()
          if r == 'sat':
            cexs.append(('raises %r' % (p.value,), prm, inputs_of(e, m)))
          elif r != 'unsat':
            rec.inconclusive('path undecided: %r' % (p.value,))
          continue
        if not common.overflow_free(rec, e, fn):
          continue
        s = e.notes['s'].t
        res = TB(p.value, W)
        if fn == 'Runs':
          L = prm
          if L == 0:
            want = z3.BitVecVal(0, W)
          else:
            want = 1 + _count([_bit(s, i) != _bit(s, i + 1)
                               for i in range(L - 1)], W)
          goal = res == want
        elif fn == 'BitCount':
          goal = res == _count([_bit(s, i) for i in range(width)], W)
        elif fn == 'OverlappingRunsOfOnes':
          m_ = prm
          goal = res == _count(
              [z3.And([_bit(s, i + j) for j in range(m_)])
               for i in range(0, width - m_ + 1)], W)
        else:  # LongestRunOfOnes: a window of L ones exists, none of L+1
          if isinstance(p.value, int):
            Lc = p.value

            def window(k):
              if k == 0:
                return z3.BoolVal(True)
              if k > width:
                return z3.BoolVal(False)
              return z3.Or([z3.And([_bit(s, i + j) for j in range(k)])
                            for i in range(0, width - k + 1)])

            goal = z3.And(window(Lc), z3.Not(window(Lc + 1)))
          else:
            goal = z3.BoolVal(False)
        r, m, _ = e.prove(goal, timeout_ms=120000)
        if r == 'proved':
          rec.obligation('proved')
        elif r == 'unknown':
          rec.obligation('unknown', fn)
        else:
          cexs.append((fn, prm, inputs_of(e, m)))
        if reach == 0:
          reach = 1
          rec.sample(dict(fn=fn, width=width, param=prm))
  rec.reach(1, reach)
  for tag, prm, cex in cexs[:3]:
    bad = replay_shift(fn, cex['s'], prm, width)
    rec.replayed()
    rec.violation('randomness_tests.util.' + fn, 'definition',
                  '%s differs from its definition' % fn,
                  dict(s=cex['s'], param=prm),
                  dict(module='harness.props.c15', function='replay_shift',
                       args=dict(fn=fn, s=str(cex['s']), prm=prm,
                                 width=width)), bad)


def replay_shift(fn, s, prm, width):
  util = _util()
  s = int(s)
  bits = [(s >> i) & 1 for i in range(width + 2)]
  try:
    if fn == 'Runs':
      got = util.Runs(s, prm)
      want = 0 if prm == 0 else 1 + sum(
          bits[i] != bits[i + 1] for i in range(prm - 1))
    elif fn == 'BitCount':
      got, want = util.BitCount(s), bin(s).count('1')
    elif fn == 'OverlappingRunsOfOnes':
      got = util.OverlappingRunsOfOnes(s, prm)
      want = sum(all(bits[i + j] for j in range(prm))
                 for i in range(0, max(0, s.bit_length() - prm + 1)))
    else:
      got = util.LongestRunOfOnes(s)
      want = max([len(x) for x in bin(s)[2:].split('0')] + [0])
  except Exception as ex:  # pylint: disable=broad-except
    print(fn, 'raised', repr(ex))
    return True
  print('%s(%#x, %r) = %r, definition %r' % (fn, s, prm, got, want))
  return int(got) != want


def split_sequence(rec, seed, length, ms):
  util = _util()
  W = length + 18
  rec.functions('paranoid_crypto.lib.randomness_tests.util:SplitSequence')
  rec.bounds('every bit string below 2^%d, length = %d, block sizes m in %s '
             '(byte-aligned and shift-and-mask branches)' % (length, length,
                                                             ms))
  cexs = []
  reach = 0
  with stubs.patched(util, **_patches(util)):
    for m_ in ms:

      def run(e, m_=m_):
        s = bvar(e, 's', W, lo=0, hi=2**length)
        e.notes['s'] = s
        return util.SplitSequence(s, length, m_)

      for p in pysym.explore(run, max_paths=2000):
        e = p.eng
        rec.path(p.kind)
        if p.kind != 'return':
          r, m = e.feasible()
          if r == 'sat':
            cexs.append(('raises %r' % (p.value,), m_, inputs_of(e, m)))
          elif r != 'unsat':
            rec.inconclusive('path undecided: %r' % (p.value,))
          continue
        if not common.overflow_free(rec, e, 'SplitSequence'):
          continue
        s = e.notes['s'].t
        res = p.value
        n = length // m_
        goal = z3.BoolVal(len(res) == n)
        if len(res) == n:
          for i in range(n):
            want = z3.LShR(s, i * m_) & z3.BitVecVal(2**m_ - 1, W)
            goal = z3.And(goal, TB(res[i], W) == want)
        r, m, _ = e.prove(goal, timeout_ms=120000)
        if r == 'proved':
          rec.obligation('proved')
        elif r == 'unknown':
          rec.obligation('unknown', 'SplitSequence')
        else:
          cexs.append(('blocks', m_, inputs_of(e, m)))
        if reach == 0:
          reach = 1
          rec.sample(dict(fn='SplitSequence', length=length, m=m_))
  rec.reach(1, reach)
  for tag, m_, cex in cexs[:3]:
    bad = replay_split(cex['s'], length, m_)
    rec.replayed()
    rec.violation('randomness_tests.util.SplitSequence', 'definition',
                  'blocks differ from (seq >> i*m) mod 2^m: ' + tag,
                  dict(s=cex['s'], length=length, m=m_),
                  dict(module='harness.props.c15', function='replay_split',
                       args=dict(s=str(cex['s']), length=length, m=m_)), bad)


def replay_split(s, length, m):
  util = _util()
  s, length, m = int(s), int(length), int(m)
  want = [(s >> (i * m)) & (2**m - 1) for i in range(length // m)]
  try:
    got = [int(x) for x in util.SplitSequence(s, length, m)]
  except Exception as ex:  # pylint: disable=broad-except
    print('SplitSequence raised', repr(ex))
    return True
  print('SplitSequence(%#x, %d, %d) = %r, definition %r' %
        (s, length, m, got, want))
  return got != want


def _freq_reference(s, length, m, wrap):
  bits = [(s >> i) & 1 for i in range(length)]
  res = [0] * 2**m
  for i in range(length if wrap else length - m + 1):
    v = 0
    for j in range(m):
      v |= bits[(i + j) % length] << j
    res[v] += 1
  return res


def frequency_count(rec, seed, length, m, wrap, symbits=None, background=0):
  """FrequencyCount and SubSequences against the window definition.

  symbits None: all bits symbolic; else the listed bit positions are symbolic
  over the given concrete background."""
  util = _util()
  W = length + 40
  rec.functions('paranoid_crypto.lib.randomness_tests.util:FrequencyCount',
                'paranoid_crypto.lib.randomness_tests.util:SubSequences')
  rec.bounds('length %d, m = %d, wrap = %s, %s (one path per string: the '
             'counters are indexed by the symbolic window)' %
             (length, m, wrap, 'all bits symbolic' if symbits is None else
              'bits %r symbolic over background %#x' % (symbits, background)))
  cexs = []
  npaths = 0
  with stubs.patched(util, **_patches(util)):

    def run(e):
      if symbits is None:
        s = bvar(e, 's', W, lo=0, hi=2**length)
      else:
        v = z3.BitVec('v', len(symbits))
        e.notes.setdefault('inputs', {})['v'] = v
        t = z3.BitVecVal(background, W)
        for k, pos in enumerate(symbits):
          b = z3.ZeroExt(W - 1, z3.Extract(k, k, v))
          # flip the background bit when v_k is set
          t = t ^ (b << pos)
        s = SBits(t)
      e.notes['s'] = s
      fc = util.FrequencyCount(s, length, m, wrap)
      subs = sorted(int(x) for x in util.SubSequences(s, length, m, wrap))
      return fc, subs

    for p in pysym.explore(run, max_paths=20000):
      e = p.eng
      rec.path(p.kind)
      npaths += 1
      r, mdl = e.feasible()
      if r != 'sat':
        if r != 'unsat':
          rec.inconclusive('path undecided')
        continue
      sval = pysym.model_value(mdl, e.notes['s'])
      if p.kind != 'return':
        cexs.append(('raises %r' % (p.value,), sval))
        continue
      fc, subs = p.value
      want = _freq_reference(sval, length, m, wrap)
      # the path may still cover several strings: the result must be concrete
      if not all(isinstance(x, int) for x in fc):
        goal = z3.And([TB(x, W) == want[i] for i, x in enumerate(fc)])
        r2, m2, _ = e.prove(goal)
        ok = r2 == 'proved'
        if r2 == 'unknown':
          rec.obligation('unknown', 'FrequencyCount')
          continue
      else:
        ok = list(fc) == want
      wsubs = sorted(v for v, c in enumerate(want) for _ in range(c))
      if ok and subs == wsubs:
        rec.obligation('proved')
      else:
        cexs.append(('counts', sval))
      if npaths == 1:
        rec.sample(dict(fn='FrequencyCount', length=length, m=m, wrap=wrap,
                        seq=sval, counts=want))
  rec.reach(1, 1 if npaths else 0)
  for tag, sval in cexs[:3]:
    bad = replay_freq(sval, length, m, wrap)
    rec.replayed()
    rec.violation('randomness_tests.util.FrequencyCount', 'definition',
                  'pattern counts differ from the window definition: ' + tag,
                  dict(s=sval, length=length, m=m, wrap=wrap),
                  dict(module='harness.props.c15', function='replay_freq',
                       args=dict(s=str(sval), length=length, m=m, wrap=wrap)),
                  bad)


def replay_freq(s, length, m, wrap):
  util = _util()
  s, length, m = int(s), int(length), int(m)
  wrap = wrap in (True, 'True', 1)
  want = _freq_reference(s, length, m, wrap)
  try:
    got = list(util.FrequencyCount(s, length, m, wrap))
    subs = sorted(util.SubSequences(s, length, m, wrap))
  except Exception as ex:  # pylint: disable=broad-except
    print('raised', repr(ex))
    return True
  wsubs = sorted(v for v, c in enumerate(want) for _ in range(c))
  print('FrequencyCount(%#x, %d, %d, %s) = %r, definition %r' %
        (s, length, m, wrap, got, want))
  return got != want or subs != wsubs


def scatter(rec, seed, bits):
  util = _util()
  W = bits + 4
  rec.functions('paranoid_crypto.lib.randomness_tests.util:Scatter')
  rec.bounds('every bit string below 2^%d, m in 1..%d (format() concretises: '
             'one path per value)' % (bits, bits + 1))
  cexs = []
  n = 0
  with stubs.patched(util, **_patches(util)):
    for m_ in range(1, bits + 2):

      def run(e, m_=m_):
        s = bvar(e, 's', W, lo=0, hi=2**bits)
        e.notes['s'] = s
        return util.Scatter(s, m_)

      for p in pysym.explore(run, max_paths=5000):
        e = p.eng
        rec.path(p.kind)
        r, mdl = e.feasible()
        if r != 'sat':
          continue
        sval = pysym.model_value(mdl, e.notes['s'])
        if p.kind != 'return':
          cexs.append((m_, sval))
          continue
        s = e.notes['s'].t
        goal = z3.BoolVal(len(p.value) == m_)
        if len(p.value) == m_:
          for i in range(m_):
            want = z3.BitVecVal(0, W)
            for j in range(0, (bits + m_) // m_ + 1):
              if i + j * m_ < W:
                want = want | (z3.ZeroExt(W - 1, z3.Extract(
                    i + j * m_, i + j * m_, s)) << j)
            goal = z3.And(goal, TB(p.value[i], W) == want)
        r2, m2, _ = e.prove(goal)
        if r2 == 'proved':
          rec.obligation('proved')
          n += 1
        elif r2 == 'unknown':
          rec.obligation('unknown', 'Scatter')
        else:
          cexs.append((m_, pysym.model_value(m2, e.notes['s'])))
  rec.sample(dict(fn='Scatter', bits=bits, paths=n))
  rec.reach(1, 1 if n else 0)
  for m_, sval in cexs[:3]:
    bad = replay_scatter(sval, m_)
    rec.replayed()
    rec.violation('randomness_tests.util.Scatter', 'definition',
                  'interleaved strings differ from the definition',
                  dict(s=sval, m=m_),
                  dict(module='harness.props.c15', function='replay_scatter',
                       args=dict(s=str(sval), m=m_)), bad)


def replay_scatter(s, m):
  util = _util()
  s, m = int(s), int(m)
  want = []
  for i in range(m):
    v = 0
    j = 0
    while i + j * m < max(s.bit_length(), 1) + m:
      v |= ((s >> (i + j * m)) & 1) << j
      j += 1
    want.append(v)
  try:
    got = [int(x) for x in util.Scatter(s, m)]
  except Exception as ex:  # pylint: disable=broad-except
    print('raised', repr(ex))
    return True
  print('Scatter(%#x, %d) = %r, definition %r' % (s, m, got, want))
  return got != want


def matrix_rank(rec, seed, rows, cols, which):
  util = _util()
  W = cols + 3
  rec.functions('paranoid_crypto.lib.randomness_tests.util:%s' % which)
  rec.bounds('every %dx%d binary matrix (rows as %d-bit strings); oracle: '
             '#{subsets of rows with zero XOR} == 2^(rows - rank)' %
             (rows, cols, cols))
  cexs = []
  reach = 0
  with stubs.patched(util, **_patches(util)):

    def run(e):
      m = [bvar(e, 'r%d' % i, W, lo=0, hi=2**cols) for i in range(rows)]
      e.notes['m'] = m
      return getattr(util, which)(list(m))

    for p in pysym.explore(run, max_paths=200000):
      e = p.eng
      rec.path(p.kind)
      if p.kind != 'return':
        r, mdl = e.feasible()
        if r == 'sat':
          cexs.append(('raises %r' % (p.value,), inputs_of(e, mdl)))
        elif r != 'unsat':
          rec.inconclusive('path undecided')
        continue
      m = [x.t for x in e.notes['m']]
      rank = p.value
      if not isinstance(rank, int):
        rec.inconclusive('symbolic rank value')
        continue
      cnt = z3.BitVecVal(0, rows + 2)
      for k in range(0, rows + 1):
        for sub in itertools.combinations(range(rows), k):
          x = z3.BitVecVal(0, W)
          for i in sub:
            x = x ^ m[i]
          cnt = cnt + z3.If(x == 0, z3.BitVecVal(1, rows + 2),
                            z3.BitVecVal(0, rows + 2))
      goal = (cnt == 2**(rows - rank)) if 0 <= rank <= rows else z3.BoolVal(
          False)
      r, mdl, _ = e.prove(goal, timeout_ms=120000)
      if r == 'proved':
        rec.obligation('proved')
      elif r == 'unknown':
        rec.obligation('unknown', which)
      else:
        cexs.append(('rank', inputs_of(e, mdl)))
      if reach == 0:
        reach = 1
        rec.sample(dict(fn=which, shape=[rows, cols]))
  rec.reach(1, reach)
  for tag, cex in cexs[:3]:
    mat = [cex['r%d' % i] for i in range(rows)]
    bad = replay_rank(which, mat)
    rec.replayed()
    rec.violation('randomness_tests.util.' + which, 'definition',
                  'rank differs from the definition: ' + tag,
                  dict(matrix=mat),
                  dict(module='harness.props.c15', function='replay_rank',
                       args=dict(which=which, matrix=mat)), bad)


def replay_rank(which, matrix):
  util = _util()
  matrix = [int(x) for x in matrix]
  rows = len(matrix)
  zero = 0
  for k in range(rows + 1):
    for sub in itertools.combinations(range(rows), k):
      x = 0
      for i in sub:
        x ^= matrix[i]
      zero += x == 0
  want = rows - (zero.bit_length() - 1)
  try:
    got = getattr(util, which)(list(matrix))
    got2 = util.BinaryMatrixRank(list(matrix))
  except Exception as ex:  # pylint: disable=broad-except
    print('raised', repr(ex))
    return True
  print('%s(%r) = %r, BinaryMatrixRank = %r, definition %r' %
        (which, matrix, got, got2, want))
  return got != want or got2 != want


# ---------------------------------------------------------------------------
# Bits: +-1 expansion.  The C-level pieces (format, bytes.translate, array)
# are replaced by models over a symbolic bit string; the padding arithmetic
# and the order of the elements are the real code's.


class _BinStr:
  """format(seq, 'b') / bytes(..., 'ascii'): the binary digits of seq, most
  significant first, no leading zeros ('0' for 0)."""

  def __init__(self, digits):
    self.digits = list(digits)  # z3 Bool or python bool, MSB first

  def __len__(self):
    return len(self.digits)

  def translate(self, table):
    lo, hi = table[ord('0')], table[ord('1')]
    return [(hi, lo, d) for d in self.digits]


def _sym_format(x, spec=''):
  if spec != 'b' or not pysym.is_sym(x):
    return format(x, spec)
  L = x.bit_length()
  L = L.value() if isinstance(L, pysym.SBitLen) else int(L)
  t = T(x)
  if z3.is_bv(t):
    digit = lambda i: z3.Extract(i, i, t) == 1
  else:
    digit = lambda i: (t / (1 << i)) % 2 == 1
  if L == 0:
    return _BinStr([False])
  return _BinStr([digit(i) for i in range(L - 1, -1, -1)])


class _BytesModel:

  def __call__(self, x=b'', enc=None):
    if isinstance(x, _BinStr):
      return x
    return bytes(x, enc) if enc else bytes(x)

  maketrans = staticmethod(bytes.maketrans)


class _ArrayModel:
  """array.array('b', ...): list of signed bytes."""

  class array(list):

    def __init__(self, code, items=()):
      super().__init__(items)
      self.code = code

    def __mul__(self, k):
      return _ArrayModel.array(self.code, list(self) * max(int(k), 0))

    def frombytes(self, data):
      for item in data:
        if isinstance(item, tuple):
          hi, lo, d = item
          sg = lambda v: v - 256 if v >= 128 else v
          if isinstance(d, bool):
            self.append(sg(hi) if d else sg(lo))
          else:
            self.append(pysym.SInt(z3.If(d, z3.IntVal(sg(hi)),
                                         z3.IntVal(sg(lo)))))
        else:
          self.append(item - 256 if item >= 128 else item)


def bits_expansion(rec, seed, maxlen):
  util = _util()
  rec.functions('paranoid_crypto.lib.randomness_tests.util:Bits')
  rec.bounds('every bit string of every length 0..%d (symbolic integer); '
             'format/bytes.translate/array replaced by models' % maxlen)
  cexs = []
  done = 0
  with stubs.patched(util, format=_sym_format, bytes=_BytesModel(),
                     array=_ArrayModel):
    for length in range(0, maxlen + 1):

      def run(e, length=length):
        s = ivar(e, 's', lo=0, hi=2**length)
        e.notes['s'] = s
        return util.Bits(s, length)

      for p in pysym.explore(run, max_paths=200):
        e = p.eng
        rec.path(p.kind)
        if p.kind == 'abort':
          rec.inconclusive('path aborted: %s' % p.value)
          continue
        r, mdl = e.feasible()
        if r == 'unsat':
          continue
        if p.kind != 'return':
          if r == 'sat':
            cexs.append((length, inputs_of(e, mdl).get('s', 0)))
          continue
        out = list(p.value)
        st = e.notes['s'].t
        if len(out) != length:
          if r == 'sat':
            cexs.append((length, inputs_of(e, mdl).get('s', 0)))
          continue
        goal = z3.And([T(out[i]) == z3.If((st / (1 << i)) % 2 == 1, 1, -1)
                       for i in range(length)] + [z3.BoolVal(True)])
        r2, m2, _ = e.prove(goal)
        if r2 == 'proved':
          rec.obligation('proved')
        elif r2 == 'unknown':
          rec.obligation('unknown', 'Bits')
        else:
          cexs.append((length, inputs_of(e, m2).get('s', 0)))
        done += 1
  rec.sample(dict(fn='Bits', maxlen=maxlen, paths=done))
  rec.reach(1, 1 if done else 0)
  seen = set()
  for length, sv in cexs:
    if (length == 0) in seen:
      continue
    seen.add(length == 0)
    bad = replay_bits(sv, length)
    rec.replayed()
    rec.violation('util.Bits', 'expansion' if length else 'empty_string',
                  'Bits(%d, %d) is not the +-1 expansion of the %d-bit string'
                  % (sv, length, length), dict(s=sv, length=length),
                  dict(module='harness.props.c15', function='replay_bits',
                       args=dict(s=sv, length=length)), bad,
                  tags=['bits_length0'] if length == 0 else [])


def replay_bits(s, length):
  util = _util()
  s, length = int(s), int(length)
  got = list(util.Bits(s, length))
  want = [1 if (s >> i) & 1 else -1 for i in range(length)]
  print('Bits(%d, %d) = %r, definition %r' % (s, length, got, want))
  return got != want


def jobs(tier, seed):
  thorough = tier == 'thorough'
  out = [Job('bits_expansion', bits_expansion,
             dict(maxlen=12 if not thorough else 24), timeout=1200, cost=8)]
  for width in ([8, 16, 24] if not thorough else [8, 16, 24, 32, 48, 64]):
    for fn in ('Runs', 'LongestRunOfOnes', 'OverlappingRunsOfOnes',
               'BitCount'):
      out.append(Job('%s_w%d' % (fn, width), shift_kernels,
                     dict(width=width, fn=fn), timeout=3000,
                     cost=width / 8.0))
  for length in ([16, 23, 24] if not thorough else [16, 23, 24, 31, 32, 40]):
    ms = [1, 2, 3, 5, 7, 8, 9, 12, 16] if not thorough else list(range(1, 33))
    ms = [m for m in ms if m <= length]
    for i in range(3):
      out.append(Job('split_L%d_%d' % (length, i), split_sequence,
                     dict(length=length, ms=ms[i::3]), timeout=3000,
                     cost=length / 4.0))
  for (L, m) in ([(6, 1), (6, 2), (7, 3), (8, 2), (9, 3)] if not thorough else
                 [(6, 1), (6, 2), (7, 3), (8, 2), (9, 3), (10, 4), (11, 2),
                  (12, 3)]):
    for wrap in (True, False):
      out.append(Job('freq_L%d_m%d_%s' % (L, m, 'wrap' if wrap else 'nowrap'),
                     frequency_count, dict(length=L, m=m, wrap=wrap),
                     timeout=3000, cost=2**(L - 5)))
  # fast path (50 * 2^m < length): 8 symbolic bits over fixed backgrounds
  for L in ([101, 104, 107] if not thorough else [101, 102, 103, 104, 105,
                                                   106, 107, 108, 201, 208]):
    m = 1 if L < 200 else 2
    pos = [0, 1, 7, 8, L - 9, L - 8, L - 2, L - 1]
    for bi, bg in enumerate([0, (1 << L) - 1, int('10' * (L // 2 + 1), 2) %
                             (1 << L)]):
      for wrap in (True, False):
        out.append(Job('freqfast_L%d_b%d_%s' % (L, bi,
                                                'wrap' if wrap else 'nowrap'),
                       frequency_count,
                       dict(length=L, m=m, wrap=wrap, symbits=pos,
                            background=bg), timeout=3000, cost=6))
  out.append(Job('scatter', scatter, dict(bits=6 if not thorough else 8),
                 timeout=3000, cost=10))
  for which in ('_BinaryMatrixRankSmall', '_BinaryMatrixRankLarge'):
    for (r, c) in ([(3, 3), (4, 3), (3, 4)] if not thorough else
                   [(3, 3), (4, 3), (3, 4), (4, 4), (5, 3), (5, 4)]):
      out.append(Job('%s_%dx%d' % (which.strip('_'), r, c), matrix_rank,
                     dict(rows=r, cols=c, which=which), timeout=3000,
                     cost=2**(r + c - 5)))
  from harness import selftest  # pylint: disable=g-import-not-at-top
  out += [Job('engine_selftest_%s' % w, selftest.validate, dict(which=w),
              timeout=900, cost=5) for w in ('bits',)]
  return out
