"""C06 - checks with a closed-form criterion flag exactly what meets it."""
import itertools

import re
import z3

from harness import checklevel
from harness import common
from harness import pb2shim
from harness import pysym
from harness import stubs
from harness import symbytes
from harness.common import T, TB, ivar, bvar, boolvar, inputs_of
from harness.pysym import SInt, SBits, SBool
from harness.props import c11
from harness.runner import Job

OUTSIDE = [
    'OpenSSL denylist (SHA-1 of a formatted string) and the key-pair table '
    'look-up (SHA-1 + AES-ECB + Miller-Rabin): hash and cipher cannot be '
    'encoded; only the candidate-sequence skeleton of the vulnerable prime '
    'generator and the p*q == n guard (C01) are decided',
    'IsValidPublicKey on the real 192..521-bit fields beyond the structural '
    'term comparison (the modular square root needed for a boundary witness '
    'is not a solver task): boundary witnesses come from toy curves',
    'arbitrary user-supplied Storage: only as a stub in C01/C17/C18',
]
ASSUMPTIONS = []


def _mods(fakes=True):
  pb = common.lib(fakes=fakes)
  pb2shim.use_fakes(fakes)
  from paranoid_crypto.lib import rsa_single_checks as rsc, roca, util  # pylint: disable=g-import-not-at-top
  from paranoid_crypto.lib import ec_util, ec_single_checks as ecs  # pylint: disable=g-import-not-at-top
  from paranoid_crypto.lib import keypair_generator as kg  # pylint: disable=g-import-not-at-top
  return dict(pb=pb, rsc=rsc, roca=roca, util=util, ec_util=ec_util, ecs=ecs,
              kg=kg)


def _prove(rec, e, goal, what, cexs, tag):
  r, m, _ = e.prove(goal, timeout_ms=120000)
  if r == 'proved':
    rec.obligation('proved')
  elif r == 'unknown':
    rec.obligation('unknown', what)
  else:
    cexs.append((tag, inputs_of(e, m)))


# ---------------------------------------------------------------------------
# sizes and exponents


def sizes_exponents(rec, seed):
  m = _mods()
  pb, rsc, util = m['pb'], m['rsc'], m['util']
  rec.functions('paranoid_crypto.lib.rsa_single_checks:CheckSizes.Check',
                'paranoid_crypto.lib.rsa_single_checks:CheckExponents.Check')
  rec.bounds('two keys, moduli and exponents arbitrary non-negative integers '
             '(unbounded)')
  cexs = []
  done = 0
  for which in ('CheckSizes', 'CheckExponents'):
    chk = getattr(rsc, which)()

    def run(e, chk=chk):
      keys = []
      for i in range(2):
        k = pb.RSAKey()
        k.rsa_info.n = ivar(e, 'n%d' % i, lo=0)
        k.rsa_info.e = ivar(e, 'e%d' % i, lo=0)
        keys.append(k)
      e.notes['keys'] = keys
      return chk.Check(keys)

    with stubs.patched(util, Bytes2Int=lambda b: b), \
        stubs.patched(rsc, gmpy=checklevel._GMPY, logging=common.QUIET):
      for p in pysym.explore(run, max_paths=100):
        e = p.eng
        rec.path(p.kind)
        if p.kind != 'return':
          r, mdl = e.feasible()
          if r == 'sat':
            cexs.append((which + ' raises', inputs_of(e, mdl)))
          continue
        keys = e.notes['keys']
        anyw = z3.BoolVal(False)
        for k in keys:
          ents = [r_ for r_ in k.test_info.test_results
                  if r_.test_name == which]
          if len(ents) != 1:
            cexs.append((which + ' entries', {}))
            continue
          if which == 'CheckSizes':
            crit = T(k.rsa_info.n) < 2**2047
          else:
            crit = T(k.rsa_info.e) != 65537
          anyw = z3.Or(anyw, crit)
          _prove(rec, e, z3.And(pysym.sbool(ents[0].result) == crit,
                                T(ents[0].severity) == 2), which, cexs, which)
        _prove(rec, e, pysym.sbool(p.value) == anyw, which + ' return', cexs,
               which)
        done += 1
  rec.sample(dict(checks=['CheckSizes', 'CheckExponents'], paths=done))
  rec.reach(1, 1 if done else 0)
  for tag, cex in cexs[:3]:
    bad = replay_sizes()
    rec.replayed()
    rec.violation('rsa_single_checks.' + tag.split(' ')[0], 'criterion',
                  'verdict differs from the closed form', cex,
                  dict(module='harness.props.c06', function='replay_sizes',
                       args={}), bad)


def replay_sizes():
  m = _mods(fakes=False)
  pb, rsc, util = m['pb'], m['rsc'], m['util']
  bad = False
  for n in (2**2047 - 1, 2**2047, 2**2047 + 1, 2**2046, 2**63, 2**4096, 1):
    for ex in (65537, 65536, 3, 65538, 1):
      for nb in (util.Int2Bytes(n), b'\x00\x00' + util.Int2Bytes(n)):
        k = pb.RSAKey()
        k.rsa_info.n = nb
        k.rsa_info.e = b'\x00' + util.Int2Bytes(ex)
        r1 = rsc.CheckSizes().Check([k])
        r2 = rsc.CheckExponents().Check([k])
        if r1 != (n < 2**2047) or r2 != (ex != 65537):
          print('n=2^%d.. e=%d -> sizes %r exponents %r' %
                (n.bit_length() - 1, ex, r1, r2))
          bad = True
  return bad


# ---------------------------------------------------------------------------
# ROCA


def roca_discrete_log(rec, seed, primes):
  m = _mods()
  roca = m['roca']
  det = roca.ROCAKeyDetector()
  rec.functions('paranoid_crypto.lib.roca:ROCAKeyDetector._HasDiscreteLog')
  rec.bounds('primes %s, every residue 0 <= value < p (symbolic): result iff '
             'value lies in the subgroup generated by 65537' % (primes,))
  cexs = []
  done = 0
  for p_ in primes:
    sub = set()
    x = 1
    while x not in sub:
      sub.add(x)
      x = x * 65537 % p_

    def run(e, p_=p_):
      v = ivar(e, 'value', lo=0, hi=p_)
      e.notes['v'] = v
      return det._HasDiscreteLog(v, 65537, p_)

    for pth in pysym.explore(run, max_paths=1000):
      e = pth.eng
      rec.path(pth.kind)
      if pth.kind != 'return':
        continue
      v = e.notes['v'].t
      want = z3.Or([v == s_ for s_ in sorted(sub)])
      _prove(rec, e, z3.BoolVal(bool(pth.value)) == want
             if isinstance(pth.value, bool) else pysym.sbool(pth.value) == want,
             '_HasDiscreteLog', cexs, ('dlog', p_))
      done += 1
  rec.sample(dict(fn='_HasDiscreteLog', primes=len(primes), paths=done))
  rec.reach(1, 1 if done else 0)
  for (tag, p_), cex in cexs[:3]:
    v = cex['value']
    got = det._HasDiscreteLog(v, 65537, p_)
    want = any(pow(65537, k, p_) == v for k in range(p_))
    rec.replayed()
    rec.violation('roca.ROCAKeyDetector._HasDiscreteLog', 'subgroup',
                  'value %d mod %d: %r, expected %r' % (v, p_, got, want),
                  dict(value=v, prime=p_),
                  dict(module='harness.props.c06', function='replay_roca',
                       args={}), got != want)


def roca_is_weak(rec, seed):
  m = _mods()
  roca = m['roca']
  rec.functions('paranoid_crypto.lib.roca:ROCAKeyDetector.IsWeak',
                'paranoid_crypto.lib.roca:ROCAKeyVariantDetector.IsWeak',
                'paranoid_crypto.lib.roca:'
                'ROCAKeyVariantDetector._QuadraticResidues')
  rec.bounds('every modulus >= 0 (unbounded); _HasDiscreteLog and the '
             'residue tables replaced by uninterpreted predicates H(p, r), '
             'QR(p, r); the 39 / 48 primes are the documented lists')
  P39 = [3, 5, 7, 11, 13, 17, 19, 23, 29, 31, 37, 41, 43, 47, 53, 59, 61, 67,
         71, 73, 79, 83, 89, 97, 101, 103, 107, 109, 113, 127, 131, 137, 139,
         149, 151, 157, 163, 167, 173]
  P48 = P39[1:] + [179, 181, 191, 193, 197, 199, 211, 223, 227, 229]
  cexs = []
  done = 0
  det = roca.ROCAKeyDetector()

  def run1(e):
    n = ivar(e, 'n', lo=0)
    e.notes['n'] = n
    calls = []

    def has_dl(value, base, prime):
      b = e.fresh('H_%d' % prime, 'bool')
      calls.append((value, base, prime, b))
      return e.decide(b)

    e.notes['calls'] = calls
    det._HasDiscreteLog = has_dl
    try:
      return det.IsWeak(n)
    finally:
      del det._HasDiscreteLog

  for p in pysym.explore(run1, max_paths=200):
    e = p.eng
    rec.path(p.kind)
    if p.kind != 'return':
      continue
    n, calls = e.notes['n'].t, e.notes['calls']
    g = z3.BoolVal(True)
    for i, (value, base, prime, b) in enumerate(calls):
      g = z3.And(g, z3.BoolVal(base == 65537), z3.BoolVal(
          i < len(P39) and prime == P39[i]), T(value) == n % prime)
    allh = z3.And([c[3] for c in calls]) if calls else z3.BoolVal(True)
    if p.value is True:
      g = z3.And(g, z3.BoolVal(len(calls) == 39), allh)
    else:
      g = z3.And(g, z3.Not(allh))
    _prove(rec, e, g, 'ROCA IsWeak', cexs, 'roca')
    done += 1

  # variant detector: tables
  var = roca.ROCAKeyVariantDetector()
  ok_tab = list(var.quadratic_residues) == P48
  for p_ in P48:
    want = [pow(i, (p_ - 1) // 2, p_) in (0, 1) for i in range(p_)]
    ok_tab &= list(var.quadratic_residues.get(p_, [])) == want
  rec.path('ground')
  if ok_tab:
    rec.obligation('proved')
  else:
    cexs.append(('qr_tables', {}))

  class QR:

    def __init__(self, prime, e, calls):
      self.prime, self.e, self.calls = prime, e, calls

    def __getitem__(self, idx):
      b = self.e.fresh('QR_%d' % self.prime, 'bool')
      self.calls.append((idx, self.prime, b))
      return self.e.decide(b)

  def run2(e):
    n = ivar(e, 'n', lo=0)
    e.notes['n'] = n
    calls = []
    v2 = roca.ROCAKeyVariantDetector()
    v2.quadratic_residues = {p_: QR(p_, e, calls) for p_ in
                             var.quadratic_residues}
    rflag = e.fresh('roca', 'bool')

    class D:

      def IsWeak(self, modulus):
        e.notes['roca_arg'] = modulus
        return e.decide(rflag)

    v2.roca_key_detector = D()
    e.notes.update(calls=calls, rflag=rflag)
    return v2.IsWeak(n)

  for p in pysym.explore(run2, max_paths=300):
    e = p.eng
    rec.path(p.kind)
    if p.kind != 'return':
      continue
    n, calls, rflag = e.notes['n'].t, e.notes['calls'], e.notes['rflag']
    g = z3.BoolVal(True)
    for i, (idx, prime, b) in enumerate(calls):
      g = z3.And(g, z3.BoolVal(i < 48 and prime == P48[i]),
                 T(idx) == n % prime)
    allq = z3.And([c[2] for c in calls]) if calls else z3.BoolVal(True)
    if p.value is True:
      g = z3.And(g, z3.BoolVal(len(calls) == 48), allq, z3.Not(rflag),
                 T(e.notes.get('roca_arg', 0)) == n)
    else:
      g = z3.And(g, z3.Or(z3.Not(allq), z3.And(z3.BoolVal(len(calls) == 48),
                                                rflag)))
    _prove(rec, e, g, 'ROCA variant IsWeak', cexs, 'roca_variant')
    done += 1
  rec.sample(dict(fn='IsWeak', paths=done))
  rec.reach(1, 1 if done else 0)
  for tag, cex in cexs[:3]:
    bad = replay_roca()
    rec.replayed()
    rec.violation('roca.' + ('ROCAKeyVariantDetector' if 'variant' in tag or
                             'qr' in tag else 'ROCAKeyDetector') + '.IsWeak',
                  tag, 'verdict differs from the closed form', cex,
                  dict(module='harness.props.c06', function='replay_roca',
                       args={}), bad)


def replay_roca():
  """Concrete closed-form oracle on structured and random moduli."""
  import random  # pylint: disable=g-import-not-at-top
  m = _mods(fakes=False)
  roca = m['roca']
  P39 = list(roca.ROCAKeyDetector.PRIMES)
  expect39 = [3, 5, 7, 11, 13, 17, 19, 23, 29, 31, 37, 41, 43, 47, 53, 59, 61,
              67, 71, 73, 79, 83, 89, 97, 101, 103, 107, 109, 113, 127, 131,
              137, 139, 149, 151, 157, 163, 167, 173]
  bad = P39 != expect39
  det, var = roca.ROCAKeyDetector(), roca.ROCAKeyVariantDetector()
  M = 1
  for p_ in expect39:
    M *= p_
  rng = random.Random(5)
  cands = []
  for _ in range(300):
    a, b_ = rng.randrange(1, 10**6), rng.randrange(1, 10**6)
    cands.append(pow(65537, a, M) * rng.randrange(1, 2**64) * M + pow(
        65537, b_, M) if rng.random() < 0.2 else pow(65537, a, M) + M *
                 rng.randrange(2**200))
    cands.append(rng.getrandbits(512) | 1)
    r = rng.randrange(2, M)
    cands.append(r * r % M + M * rng.randrange(2**100))
  # structured modulo all primes but one, where the residue is forced to a
  # value of its own (0, or a residue outside the subgroup generated by 65537)
  base = pow(65537, 12345, M)
  for p_ in expect39:
    others = M // p_
    sub = {pow(65537, k, p_) for k in range(p_)}
    for target in [0] + [r_ for r_ in range(1, p_) if r_ not in sub][:1]:
      # n = base (mod M/p_), n = target (mod p_)
      t = (target - base) * pow(others, -1, p_) % p_
      cands.append(base + others * t + M * rng.randrange(1, 2**64))
  P48 = expect39[1:] + [179, 181, 191, 193, 197, 199, 211, 223, 227, 229]
  for n in cands:
    w1 = all(any(pow(65537, k, p_) == n % p_ for k in range(p_))
             for p_ in expect39)
    w2 = all(pow(n % p_, (p_ - 1) // 2, p_) in (0, 1) for p_ in P48) and not w1
    if det.IsWeak(n) != w1 or var.IsWeak(n) != w2:
      print('modulus', n, 'ROCA', det.IsWeak(n), w1, 'variant', var.IsWeak(n),
            w2)
      bad = True
  return bad


# ---------------------------------------------------------------------------
# EC validity


def ec_validity_toy(rec, seed, idx):
  m = _mods()
  ec_util = m['ec_util']
  p, a, b = c11.TOY[idx]
  c, pts = c11._toy_curve(ec_util, p, a, b)
  W = 4 * p.bit_length() + 6
  rec.functions('paranoid_crypto.lib.ec_util:EcCurve.IsValidPublicKey',
                'paranoid_crypto.lib.ec_util:EcCurve.OnCurve')
  rec.bounds('toy curve over F_%d (cofactor 1): every coordinate pair with '
             '-3 <= x, y < 2p + 3, and infinity' % p)
  cexs = []
  done = 0
  a_, b_ = int(c.a), int(c.b)

  def run(e):
    x = bvar(e, 'x', W, lo=-3, hi=2 * p + 3)
    y = bvar(e, 'y', W, lo=-3, hi=2 * p + 3)
    e.notes.update(x=x, y=y)
    return c.IsValidPublicKey((x, y))

  with stubs.patched(ec_util, gmpy=stubs.GMPY):
    for pth in pysym.explore(run, max_paths=200):
      e = pth.eng
      rec.path(pth.kind)
      if pth.kind != 'return':
        r, mdl = e.feasible()
        if r == 'sat':
          cexs.append(('raises %r' % (pth.value,), inputs_of(e, mdl)))
        continue
      if not common.overflow_free(rec, e, 'IsValidPublicKey'):
        continue
      x, y = e.notes['x'].t, e.notes['y'].t
      # on-curve over the integers mod p, by table: (x mod p, y mod p) is an
      # affine point; and 0 <= x, y <= p - 1
      finite = [q for q in pts if q != c11.INF]
      want = z3.Or([z3.And(x == q[0], y == q[1]) for q in finite])
      got = pth.value
      _prove(rec, e, (pysym.sbool(got) if not isinstance(got, bool) else
                      z3.BoolVal(got)) == want, 'IsValidPublicKey', cexs,
             'validity')
      done += 1
    inf_ok = c.IsValidPublicKey(ec_util.INFINITY) is False
  rec.path('ground')
  if inf_ok:
    rec.obligation('proved')
  else:
    cexs.append(('infinity', {}))
  rec.sample(dict(curve='F_%d' % p, paths=done))
  rec.reach(1, 1 if done else 0)
  for tag, cex in cexs[:3]:
    bad, detail = replay_validity()
    rec.replayed()
    rec.violation('ec_util.EcCurve.IsValidPublicKey', 'validity',
                  '%s; %s' % (tag, detail), cex,
                  dict(module='harness.props.c06',
                       function='replay_validity_cmd', args={}), bad)


def replay_validity():
  """Concrete: toy curves exhaustively, and boundary encodings on the named
  curves (x = p where b is a quadratic residue, p + x, negative)."""
  import gmpy2  # pylint: disable=g-import-not-at-top
  m = _mods(fakes=False)
  ec_util, pb, util, ecs = m['ec_util'], m['pb'], m['util'], m['ecs']
  probs = []
  for idx in range(3):
    p, a, b = c11.TOY[idx]
    c, pts = c11._toy_curve(ec_util, p, a, b)
    finite = set(q for q in pts if q != c11.INF)
    for x in range(-2, 2 * p + 2):
      for y in range(-2, 2 * p + 2):
        if c.IsValidPublicKey((x, y)) != ((x, y) in finite):
          probs.append('toy F_%d: (%d, %d)' % (p, x, y))
    if c.IsValidPublicKey(ec_util.INFINITY):
      probs.append('infinity accepted')
  for cid, c in ec_util.CURVE_FACTORY.items():
    if c is None:
      continue
    p, b = int(c.mod), int(c.b)
    G = (int(c.g[0]), int(c.g[1]))
    cases = [(G, True), ((G[0] + p, G[1]), False), ((G[0], G[1] + p), False),
             ((G[0], p - G[1]), True), ((0, 0), False), ((p, 0), False)]
    if gmpy2.jacobi(b, p) == 1 and p % 4 == 3:
      y = pow(b, (p + 1) // 4, p)
      cases += [((0, y), True), ((p, y), False), ((0, y + p), False)]
    for pt, want in cases:
      if c.IsValidPublicKey(pt) != want:
        probs.append('%s: point with x %s p' % (c.name, '>=' if pt[0] >= p
                                                else '<'))
      k = pb.ECKey()
      k.ec_info.curve_type = cid
      k.ec_info.x = util.Int2Bytes(pt[0])
      k.ec_info.y = util.Int2Bytes(pt[1])
      if ecs.CheckValidECKey().Check([k]) != (not want):
        probs.append('%s: CheckValidECKey verdict' % c.name)
  return bool(probs), (probs[0] if probs else 'consistent')


def replay_validity_cmd():
  bad, detail = replay_validity()
  print(detail)
  return bad


def ec_check_level(rec, seed):
  m = _mods()
  pb, ec_util, util, ecs = m['pb'], m['ec_util'], m['util'], m['ecs']
  rec.functions('paranoid_crypto.lib.ec_single_checks:CheckValidECKey.Check',
                'paranoid_crypto.lib.ec_single_checks:CheckWeakCurve.Check')
  rec.bounds('one key; curve identifier symbolic over [-1, 22] (all 20 enum '
             'values and undefined ones); IsValidPublicKey replaced by an '
             'arbitrary predicate')
  supported = {cid for cid, c in ec_util.CURVE_FACTORY.items()
               if c is not None}
  weak_ids = {cid for cid in supported
              if int(ec_util.CURVE_FACTORY[cid].n).bit_length() < 224}
  cexs = []
  done = 0

  def valid_stub(self, pt):
    e = pysym.eng()
    b = e.fresh('valid', 'bool')
    e.notes['valid'] = b
    return e.decide(b)

  for which in ('CheckValidECKey', 'CheckWeakCurve'):
    chk = getattr(ecs, which)()

    def run(e, chk=chk):
      k = pb.ECKey()
      k.ec_info.curve_type = ivar(e, 'cid', lo=-1, hi=23)
      k.ec_info.x = ivar(e, 'x', lo=0)
      k.ec_info.y = ivar(e, 'y', lo=0)
      e.notes['key'] = k
      return chk.Check([k])

    with stubs.patched(util, Bytes2Int=lambda b: b), \
        stubs.patched(ec_util, gmpy=stubs.GMPY,
                      CURVE_FACTORY=SymKeyDict(ec_util.CURVE_FACTORY)), \
        stubs.patched(ecs, logging=common.QUIET), \
        c11_attr(ec_util.EcCurve, 'IsValidPublicKey', valid_stub):
      for p in pysym.explore(run, max_paths=400):
        e = p.eng
        rec.path(p.kind)
        if p.kind != 'return':
          r, mdl = e.feasible()
          if r == 'sat':
            cexs.append((which + ' raises', inputs_of(e, mdl)))
          continue
        k = e.notes['key']
        cid = T(k.ec_info.curve_type)
        known = z3.Or([cid == c for c in sorted(supported)])
        ents = [r_ for r_ in k.test_info.test_results
                if r_.test_name == which]
        if which == 'CheckValidECKey':
          valid = e.notes.get('valid', z3.BoolVal(True))
          want = z3.Or(z3.Not(known), z3.Not(valid))
          g = z3.BoolVal(len(ents) == 1)
          if len(ents) == 1:
            g = z3.And(g, pysym.sbool(ents[0].result) == want,
                       pysym.sbool(p.value) == want,
                       T(ents[0].severity) == 2)
        else:
          isweak = z3.Or([cid == c for c in sorted(weak_ids)]) if weak_ids \
              else z3.BoolVal(False)
          g = z3.BoolVal(len(ents) <= 1)
          g = z3.And(g, z3.BoolVal(len(ents) == 1) == known)
          if len(ents) == 1:
            g = z3.And(g, pysym.sbool(ents[0].result) == isweak,
                       pysym.sbool(p.value) == isweak)
          else:
            g = z3.And(g, pysym.sbool(p.value) == z3.BoolVal(False))
        _prove(rec, e, g, which, cexs, which)
        done += 1
  rec.sample(dict(checks=['CheckValidECKey', 'CheckWeakCurve'], paths=done,
                  weak_curves=sorted(weak_ids)))
  rec.reach(1, 1 if done else 0)
  for tag, cex in cexs[:3]:
    bad, detail = replay_validity()
    rec.replayed()
    rec.violation('ec_single_checks.' + tag.split(' ')[0], 'criterion',
                  detail, cex, dict(module='harness.props.c06',
                                    function='replay_validity_cmd', args={}),
                  bad)


import contextlib


@contextlib.contextmanager
def c11_attr(obj, name, value):
  old = getattr(obj, name)
  setattr(obj, name, value)
  try:
    yield
  finally:
    setattr(obj, name, old)


# ---------------------------------------------------------------------------
# vulnerable key-pair generator: candidate sequence


class _KGmpy(stubs.GmpyStub):
  is_prime = staticmethod(stubs.predicate_stub('is_prime'))


class SymKeyDict(dict):
  """dict with int keys that can be looked up with a symbolic key (forks over
  the keys; CPython would only compare keys whose hash collides)."""

  def _find(self, k):
    for key in self.keys():
      if k == key:  # forks
        return key
    return None

  def get(self, k, default=None):
    if not pysym.is_sym(k):
      return dict.get(self, k, default)
    key = self._find(k)
    return default if key is None else dict.__getitem__(self, key)

  def __getitem__(self, k):
    if not pysym.is_sym(k):
      return dict.__getitem__(self, k)
    key = self._find(k)
    if key is None:
      raise KeyError(k)
    return dict.__getitem__(self, key)

  def __contains__(self, k):
    if not pysym.is_sym(k):
      return dict.__contains__(self, k)
    return self._find(k) is not None


def keypair_skeleton(rec, seed, p_bits):
  m = _mods()
  kg = m['kg']
  rec.functions('paranoid_crypto.lib.keypair_generator:Generator.'
                'generate_prime')
  rec.bounds('prime size %d bits; SHA-1 / AES outputs arbitrary bytes, '
             'is_prime an arbitrary predicate; up to 5 candidates: the '
             'candidates tested are v + 31 - v %% 30 followed by the '
             'increments 6,4,2,4,2,4,6,2 (the sequence of the npm keypair / '
             'node-forge generator)' % p_bits)
  cexs = []
  done = 0

  class Sha:

    def __init__(self, data=b''):
      pass

    def digest(self):
      return symbytes.fresh_bytes(20, 'sha1')

  class Enc:

    def update(self, data):
      return symbytes.fresh_bytes(16, 'aes')

  class Ciph:

    def __init__(self, *a, **k):
      pass

    def encryptor(self):
      return Enc()

  class Hl:
    sha1 = Sha

  class Ciphers:
    Cipher = Ciph

  class Alg:
    AES = staticmethod(lambda key: None)

  class Modes:
    ECB = staticmethod(lambda: None)

  def run(e):
    g = kg.Generator(b'seed')
    e.notes['havoc_mod'] = None
    return g.generate_prime(p_bits)

  with stubs.patched(kg, hashlib=Hl, ciphers=Ciphers, algorithms=Alg,
                     modes=Modes, gmpy=_KGmpy(), int=symbytes.SymInt):
    for p in pysym.explore(run, max_paths=3000, max_decisions=9):
      e = p.eng
      if p.kind == 'abort' and str(p.value).startswith('bound-hit'):
        rec.path('bound-hit')
        continue
      rec.path(p.kind)
      if p.kind != 'return':
        continue  # OverflowError of the 128-bit counter: outside
      preds = [x for x in e.log if x[0] == 'pred' and x[1] == 'is_prime']
      # segments: candidates tested with is_prime(., 1); a call with 10
      # rounds closes the segment (the outer loop restarts with fresh bytes)
      segs, cur = [], []
      for x in preds:
        if x[2][1] == 1:
          cur.append(x)
        else:
          if cur:
            segs.append((cur, x))
          cur = []
      if cur:
        segs.append((cur, None))
      if not segs:
        cexs.append(('no_candidate', {}))
        continue
      delta = [6, 4, 2, 4, 2, 4, 6, 2]
      g = z3.BoolVal(True)
      # the raw candidates v = bytes | msb: the bit-or applications, in order
      raws = [val[0] for key, val in e.memo.items()
              if key[0] == 'bitop' and key[1] == 'or']
      g = z3.And(g, z3.BoolVal(len(raws) == len(segs)))
      for si, (cands, final) in enumerate(segs):
        first = T(cands[0][2][0])
        g = z3.And(g, first % 30 == 1)
        if si < len(raws):
          v = raws[si]
          # node-forge: num.dAddOffset(31 - num.mod(30), 0)
          g = z3.And(g, first == v + 31 - v % 30)
        for i in range(1, len(cands)):
          g = z3.And(g, T(cands[i][2][0]) == T(cands[i - 1][2][0]) + delta[
              (i - 1) % 8])
        if final is not None:
          g = z3.And(g, T(final[2][0]) == T(cands[-1][2][0]))
      last = segs[-1]
      g = z3.And(g, T(p.value) == T(last[0][-1][2][0]),
                 z3.BoolVal(last[1] is not None))
      _prove(rec, e, g, 'candidate sequence', cexs, 'sequence')
      done += 1
  rec.sample(dict(fn='generate_prime', paths=done))
  rec.reach(1, 1 if done else 0)
  for tag, cex in cexs[:2]:
    bad, detail = replay_keypair()
    rec.replayed()
    rec.violation('keypair_generator.Generator.generate_prime', tag, detail,
                  cex, dict(module='harness.props.c06',
                            function='replay_keypair_cmd', args={}), bad)


class EncodedInt:
  """rsa_info.n as a byte string: big-endian encoding of a symbolic integer
  with a concrete number of leading zero bytes."""

  def __init__(self, value, zeros):
    self.value = value
    self.zeros = zeros

  def hex(self):
    # the digits of the value are rendered through the placeholder mechanism
    return '00' * self.zeros + '%x' % self.value


def openssl_denylist(rec, seed, zeros):
  """CheckOpensslDenylist: the string hashed is "Modulus=<n in upper-case
  hex, no leading zeros>\\n", the list is asked for "RSA-<bits>:<last 20 hex
  digits of its SHA-1>", and the verdict is the list's answer - for every
  modulus value and independently of leading zero bytes of the encoding."""
  m = _mods()
  pb, rsc, util = m['pb'], m['rsc'], m['util']
  rec.functions('paranoid_crypto.lib.rsa_single_checks:'
                'CheckOpensslDenylist.Check')
  rec.bounds('one key, modulus any integer in [2^63, 2^70), encoded with %d '
             'leading zero bytes; hashlib.sha1 = injective token per input; '
             'user-supplied Storage whose list answers arbitrarily' % zeros)
  cexs = []
  done = 0

  def run(e):
    n = ivar(e, 'n', lo=2**63, hi=2**70)
    hashed, asked = [], []
    answer = e.fresh('listed', 'bool')

    class Sha:

      def __init__(self, data=b''):
        hashed.append(data)
        self.tok = '%040x' % (0xabc000 + len(hashed))

      def hexdigest(self):
        return self.tok

    class Hl:
      sha1 = Sha

    class Deny:

      def __contains__(self, keystr):
        asked.append(keystr)
        return e.decide(answer)

    class St:

      def GetOpensslDenylist(self):
        return Deny()

    k = pb.RSAKey()
    k.rsa_info.n = EncodedInt(n, zeros)
    k.rsa_info.e = 65537
    e.notes.update(n=n, key=k, hashed=hashed, asked=asked, answer=answer)
    e.notes['format_placeholder_in'] = {'Check', 'hex'}
    with stubs.patched(rsc, hashlib=Hl):
      return rsc.CheckOpensslDenylist(St()).Check([k])

  with stubs.patched(util, Bytes2Int=lambda b_: b_.value if isinstance(
      b_, EncodedInt) else b_), \
      stubs.patched(rsc, gmpy=checklevel._GMPY, logging=common.QUIET):
    for p in pysym.explore(run, max_paths=100):
      e = p.eng
      rec.path(p.kind)
      if p.kind == 'abort':
        rec.inconclusive('path aborted: %s' % p.value)
        continue
      if p.kind != 'return':
        r, mdl = e.feasible()
        if r == 'sat':
          cexs.append(('raises %r' % (p.value,), inputs_of(e, mdl)))
        continue
      n, k = e.notes['n'], e.notes['key']
      hashed, asked = e.notes['hashed'], e.notes['asked']
      ok = len(hashed) == 1 and len(asked) == 1
      g = z3.BoolVal(ok)
      if ok:
        mt = re.match(rb'Modulus=([0-9A-F]+)\n$', bytes(hashed[0]))
        if not mt:
          g = z3.BoolVal(False)
        else:
          v = int(mt.group(1), 16)
          g = z3.And(g, z3.BoolVal(not mt.group(1).startswith(b'0')),
                     pysym.format_arg(e, v) == n.t)
        L = pysym.model_int(e.model, n.t).bit_length() if e.model else 0
        mt2 = re.match(r'RSA-(\d+):([0-9a-f]{20})$', asked[0])
        if not mt2:
          g = z3.BoolVal(False)
        else:
          Lq = int(mt2.group(1))
          g = z3.And(g, n.t >= 2**(Lq - 1), n.t < 2**Lq,
                     z3.BoolVal(mt2.group(2) == ('%040x' % 0xabc001)[20:]))
      ents = [r_ for r_ in k.test_info.test_results
              if r_.test_name == 'CheckOpensslDenylist']
      if len(ents) != 1:
        g = z3.BoolVal(False)
      else:
        g = z3.And(g, pysym.sbool(ents[0].result) == e.notes['answer'],
                   pysym.sbool(k.test_info.weak) == e.notes['answer'],
                   pysym.sbool(p.value) == e.notes['answer'])
      _prove(rec, e, g, 'openssl denylist criterion', cexs, 'criterion')
      done += 1
  rec.sample(dict(check='CheckOpensslDenylist', zeros=zeros, paths=done))
  rec.reach(1, 1 if done else 0)
  for tag, cex in cexs[:2]:
    bad, detail = replay_openssl()
    rec.replayed()
    rec.violation('rsa_single_checks.CheckOpensslDenylist.Check',
                  tag.split(' ')[0], '%s; %s' % (tag, detail), cex,
                  dict(module='harness.props.c06',
                       function='replay_openssl_cmd', args={}), bad)


def replay_openssl():
  """Real check, real protobufs, a Storage listing reference fingerprints:
  listed <=> flagged for minimal, zero-prefixed and short-top-nibble moduli."""
  import hashlib  # pylint: disable=g-import-not-at-top
  import gmpy2  # pylint: disable=g-import-not-at-top
  m = _mods(fakes=False)
  pb, rsc, util = m['pb'], m['rsc'], m['util']

  def fp(n):
    return 'RSA-%d:%s' % (n.bit_length(), hashlib.sha1(
        ('Modulus=%X\n' % n).encode()).hexdigest()[20:])

  np_ = lambda v: int(gmpy2.next_prime(v))
  mods = [np_(2**1023 + 5) * np_(2**1024 + 77),
          np_(2**1020) * np_(2**1023 + 999),      # top nibble 0: 2044 bits
          np_(2**511 + 9) * np_(2**512 + 3),
          2**64 + 13]
  listed = {fp(mods[0]), fp(mods[1]), fp(mods[3])}

  class St:

    def GetOpensslDenylist(self):
      return listed

  chk = rsc.CheckOpensslDenylist(St())
  for n in mods:
    for zeros in (0, 1, 3):
      k = pb.RSAKey()
      k.rsa_info.n = b'\0' * zeros + util.Int2Bytes(n)
      k.rsa_info.e = util.Int2Bytes(65537)
      try:
        ret = chk.Check([k])
      except Exception as ex:  # pylint: disable=broad-except
        return True, 'raised %r' % (ex,)
      want = fp(n) in listed
      ents = [r_ for r_ in k.test_info.test_results
              if r_.test_name == 'CheckOpensslDenylist']
      if len(ents) != 1 or ents[0].result != want or ret != want or \
          k.test_info.weak != want:
        return True, ('%d-bit modulus with %d leading zero bytes: listed=%r '
                      'flagged=%r' % (n.bit_length(), zeros, want,
                                      ents[0].result if ents else None))
  return False, 'listed <=> flagged on every encoding tried'


def replay_openssl_cmd():
  bad, detail = replay_openssl()
  print(detail)
  return bad


def keypair_generate_key(rec, seed, pbits, draws):
  """generate_key's retry loop over an arbitrary sequence of candidate primes:
  the pair returned is the one node-forge's rsa.generateKeyPair state machine
  (p >= q re-established before every size test, a fresh q replacing the
  smaller prime) ends with."""
  m = _mods()
  kg = m['kg']
  bits = 2 * pbits
  rec.functions('paranoid_crypto.lib.keypair_generator:Generator.generate_key')
  rec.bounds('prime size %d bits (modulus %d bits); generate_prime replaced '
             'by an arbitrary sequence of up to %d values in [2^%d, 2^%d); '
             'longer retry sequences are bound-hit paths' %
             (pbits, bits, draws, pbits - 1, pbits))
  cexs = []
  done = 0

  def run(e):
    g = kg.Generator(b'seed')
    xs = []

    def gen(size):
      if len(xs) >= draws:
        raise pysym.PathAbort('bound-hit: more than %d primes drawn' % draws)
      x = ivar(e, 'x%d' % len(xs), lo=2**(pbits - 1), hi=2**pbits)
      xs.append(x)
      return x

    g.generate_prime = gen
    e.notes['xs'] = xs
    return g.generate_key(bits)

  class Hl:

    class sha1:

      def __init__(self, data=b''):
        pass

      def digest(self):
        return b'\0' * 20

  with stubs.patched(kg, hashlib=Hl):
    for p in pysym.explore(run, max_paths=400):
      e = p.eng
      if p.kind == 'abort' and str(p.value).startswith('bound-hit'):
        rec.path('bound-hit')
        continue
      rec.path(p.kind)
      if p.kind == 'abort':
        rec.inconclusive('path aborted: %s' % p.value)
        continue
      if p.kind != 'return':
        r, mdl = e.feasible()
        if r == 'sat':
          cexs.append(('raises', inputs_of(e, mdl)))
        continue
      xs = [x.t for x in e.notes['xs']]
      if len(xs) < 2:
        cexs.append(('draws', {}))
        continue
      mx = lambda a, b_: z3.If(a >= b_, a, b_)
      mn = lambda a, b_: z3.If(a >= b_, b_, a)
      pp, qq = mx(xs[0], xs[1]), mn(xs[0], xs[1])
      g = z3.BoolVal(True)
      for k in range(2, len(xs)):
        # a further draw happened exactly because the modulus was too short
        g = z3.And(g, pp * qq < 2**(bits - 1))
        pp, qq = mx(pp, xs[k]), mn(pp, xs[k])
      g = z3.And(g, pp * qq >= 2**(bits - 1), T(p.value[0]) == pp,
                 T(p.value[1]) == qq)
      _prove(rec, e, g, 'generate_key state machine', cexs, 'state_machine')
      done += 1
  rec.sample(dict(fn='generate_key', paths=done))
  rec.reach(1, 1 if done else 0)
  for tag, cex in cexs[:2]:
    bad, detail = replay_generate_key(pbits, [cex.get('x%d' % i) for i in
                                              range(draws)])
    rec.replayed()
    rec.violation('keypair_generator.Generator.generate_key', tag, detail,
                  cex, dict(module='harness.props.c06',
                            function='replay_generate_key_cmd',
                            args=dict(pbits=pbits, xs=[
                                cex.get('x%d' % i) for i in range(draws)])),
                  bad)


def replay_generate_key(pbits, xs):
  m = _mods(fakes=False)
  kg = m['kg']
  pbits = int(pbits)
  bits = 2 * pbits
  seqs = [[int(x) for x in xs if x is not None]]
  # families: the size test failing once, twice, ... with the fresh prime
  # above / below the one that is kept
  lo, hi = 2**(pbits - 1), 2**pbits - 1
  seqs += [[lo + 1, lo + 3, lo + 7, hi - 2, hi], [lo + 3, lo + 1, lo + 9, hi],
           [lo + 1, lo + 2, hi, hi - 4], [lo + 5, lo + 1, lo + 3, lo + 2,
                                          hi - 1, hi]]
  for seq in seqs:
    if len(seq) < 2:
      continue
    it = iter(seq + [hi] * 4)
    g = kg.Generator(b'seed')
    g.generate_prime = lambda size, it=it: next(it)
    try:
      got = tuple(int(v) for v in g.generate_key(bits))
    except Exception as ex:  # pylint: disable=broad-except
      return True, 'generate_key raised %r' % (ex,)
    it = iter(seq + [hi] * 4)
    p_, q_ = next(it), next(it)
    while True:
      if q_ > p_:
        p_, q_ = q_, p_
      if (p_ * q_).bit_length() == bits:
        break
      q_ = next(it)
    if got != (p_, q_):
      return True, ('candidate primes %r: generate_key returned %r, the '
                    'reference state machine %r' % (seq[:6], got, (p_, q_)))
  return False, 'generate_key follows the reference state machine'


def replay_generate_key_cmd(pbits, xs):
  bad, detail = replay_generate_key(pbits, xs)
  print(detail)
  return bad


def replay_keypair():
  """Reference re-implementation of the keypair prime search against the
  real Generator for the 3 x 256 covered seeds' first-byte family (sizes
  2048/3072 on a subset for time)."""
  import hashlib  # pylint: disable=g-import-not-at-top
  import gmpy2  # pylint: disable=g-import-not-at-top
  from cryptography.hazmat.primitives import ciphers  # pylint: disable=g-import-not-at-top
  from cryptography.hazmat.primitives.ciphers import algorithms, modes  # pylint: disable=g-import-not-at-top
  m = _mods(fakes=False)
  kg = m['kg']

  class Ref:

    def __init__(self, seed):
      t = hashlib.sha1(seed).digest()
      key = hashlib.sha1(t).digest()
      s2 = hashlib.sha1(key).digest()
      self.key, self.seed = key[:16], s2[:16]

    def block(self):
      enc = ciphers.Cipher(algorithms.AES(self.key), modes.ECB()).encryptor()
      out = enc.update(self.seed)
      inc = (int.from_bytes(self.seed, 'big') + 1).to_bytes(16, 'big')
      self.key = enc.update(inc)
      enc = ciphers.Cipher(algorithms.AES(self.key), modes.ECB()).encryptor()
      self.seed = enc.update(inc)
      return out

    def prime(self, bits):
      nb = bits // 8
      while True:
        buf = b''
        while len(buf) <= nb:
          buf += self.block()
        v = int.from_bytes(buf[1:nb + 1], 'big') | (1 << (bits - 1))
        v += 31 - v % 30
        i = 0
        while not gmpy2.is_prime(v, 1):
          v += [6, 4, 2, 4, 2, 4, 6, 2][i % 8]
          i += 1
        if gmpy2.is_prime(v, 10):
          return v

  probs = []
  for first in list(range(0, 256, 3)) + [0xa7]:
    seed = bytes([first] + [0] * 31)
    for bits in (1024, 1536):
      a = kg.Generator(seed).generate_prime(bits)
      b_ = Ref(seed).prime(bits)
      if int(a) != int(b_):
        probs.append('seed %02x.. %d-bit prime differs from the reference '
                     'generator' % (first, bits))
        break
    if probs:
      break
  return bool(probs), (probs[0] if probs else 'generator matches reference')


def replay_keypair_cmd():
  bad, detail = replay_keypair()
  print(detail)
  return bad


def jobs(tier, seed):
  thorough = tier == 'thorough'
  P39 = [3, 5, 7, 11, 13, 17, 19, 23, 29, 31, 37, 41, 43, 47, 53, 59, 61, 67,
         71, 73, 79, 83, 89, 97, 101, 103, 107, 109, 113, 127, 131, 137, 139,
         149, 151, 157, 163, 167, 173]
  out = [Job('sizes_exponents', sizes_exponents, {}, timeout=600, cost=3)]
  for i in range(4):
    out.append(Job('roca_dlog_%d' % i, roca_discrete_log,
                   dict(primes=P39[i::4]), timeout=1200, cost=15))
  out.append(Job('roca_is_weak', roca_is_weak, {}, timeout=1200, cost=10))
  for idx in ([0, 1] if not thorough else [0, 1, 2, 3]):
    out.append(Job('ec_validity_F%d' % c11.TOY[idx][0], ec_validity_toy,
                   dict(idx=idx), timeout=1200, cost=10))
  out.append(Job('ec_check_level', ec_check_level, {}, timeout=1200, cost=10))
  out.append(Job('keypair_skeleton', keypair_skeleton, dict(p_bits=64),
                 timeout=1200, cost=10))
  for z_ in (0, 1, 2):
    out.append(Job('openssl_denylist_z%d' % z_, openssl_denylist,
                   dict(zeros=z_), timeout=600, cost=3))
  for pb_, dr in ([(8, 4), (16, 4), (1024, 4)] if not thorough else [(8, 5), (16, 5),
                                                           (32, 4), (1024, 4)]):
    out.append(Job('keypair_generate_key_%d' % pb_, keypair_generate_key,
                   dict(pbits=pb_, draws=dr), timeout=1200, cost=10))
  return out
