"""C09 - the nonce relation and the byte/int conversions are exact."""
import z3

from harness import common
from harness import pb2shim
from harness import pysym
from harness import stubs
from harness import symbytes
from harness.common import T, ivar, inputs_of
from harness.pysym import SInt
from harness.runner import Job

OUTSIDE = [
    'byte strings longer than the stated lengths for the round trips',
    'primality of the curve orders (invertibility of s in [1, n-1] is '
    'assumed)',
]
ASSUMPTIONS = ['s has an inverse modulo the group order (n prime)']


def _mods(fakes=True):
  pb = common.lib(fakes=fakes)
  pb2shim.use_fakes(fakes)
  from paranoid_crypto.lib import ec_util, util  # pylint: disable=g-import-not-at-top
  return pb, ec_util, util


def _curve(ec_util, n, name='sym'):
  c = object.__new__(ec_util.EcCurve)
  c.n = n
  c.name = name
  c.h = 1
  c.a = c.b = c.mod = None
  c.g = None
  c._cache = {}
  c._table = {}
  c._table_size = 0
  return c


def _relation_goal(e, n, r, s, z, d, k, q1, a, b):
  """k == a + b*d (mod n) with the explicit quotient W (hint) and ranges."""
  inv = [v for key, v in e.memo.items() if key[0] == 'invert'
         and v[1].eq(T(s)) and v[2].eq(T(n))]
  hints = []
  goal_range = z3.And(T(a) >= 0, T(a) < T(n), T(b) >= 0, T(b) < T(n))
  if inv:
    si, _, _, qi = inv[0]
    qa = qb = None
    for key, v in e.memo.items():
      if key[0] == 'divmod' and v[3].eq(T(n)):
        rt = z3.simplify(v[1])
        if rt.eq(T(a)):
          qa = v[0]
        if rt.eq(T(b)):
          qb = v[0]
    if qa is not None and qb is not None:
      W = T(k) * qi - si * T(q1) - qa - qb * T(d)
      return z3.And(goal_range, T(a) + T(b) * T(d) - T(k) == W * T(n)), hints
  # generic form (no hint available): existential quotient
  w = z3.Int('W_any')
  return z3.And(goal_range,
                z3.Exists([w], T(a) + T(b) * T(d) - T(k) == w * T(n))), hints


def nonce_relation(rec, seed, two_curves):
  pb, ec_util, util = _mods()
  rec.functions('paranoid_crypto.lib.ec_util:EcCurve.HiddenNumberParams')
  rec.bounds('symbolic group order n > 2 (unbounded Int), every r, s, d, k in '
             '[1, n-1], z in [0, n) with s*k == z + r*d (mod n)%s' %
             ('; two curves with independent orders called one after the '
              'other (any s1, s2 incl. equal)' if two_curves else ''))
  rec.hint('explicit quotient W = k*qi - si*q1 - qa - qb*d for the goal '
           'a + b*d - k = W*n')
  cexs = []
  reach = 0

  def mk(e, tag):
    n = ivar(e, 'n' + tag, lo=3)
    vs = {}
    for nm in 'rsdk':
      v = ivar(e, nm + tag, lo=1)
      e.assume(v.t < n.t)
      vs[nm] = v
    z = ivar(e, 'z' + tag, lo=0)
    e.assume(z.t < n.t)
    q1 = ivar(e, 'q1' + tag)
    e.assume(vs['s'].t * vs['k'].t == z.t + vs['r'].t * vs['d'].t +
             q1.t * n.t)
    return dict(n=n, z=z, q1=q1, **vs)

  def run(e):
    sets = [mk(e, '_1')] + ([mk(e, '_2')] if two_curves else [])
    e.notes['sets'] = sets
    out = []
    for st in sets:
      c = _curve(ec_util, st['n'])
      out.append(c.HiddenNumberParams(st['r'], st['s'], st['z']))
    return out

  with stubs.patched(ec_util, gmpy=stubs.GMPY):
    for p in pysym.explore(run, max_paths=200):
      e = p.eng
      rec.path(p.kind)
      if p.kind == 'abort':
        rec.inconclusive('path aborted: %s' % p.value)
        continue
      if p.kind == 'raise':
        if isinstance(p.value, ZeroDivisionError):
          continue  # s not invertible: excluded by the primality assumption
        r, m = e.feasible()
        if r == 'sat':
          cexs.append(('raises %r' % (p.value,), inputs_of(e, m)))
        continue
      for st, (a, b) in zip(e.notes['sets'], p.value):
        goal, hints = _relation_goal(e, st['n'], st['r'], st['s'], st['z'],
                                     st['d'], st['k'], st['q1'], a, b)
        r, m, _ = e.prove(goal, hints=hints, timeout_ms=60000)
        if r == 'proved':
          rec.obligation('proved')
        elif r == 'unknown':
          rec.obligation('unknown', 'nonce relation')
        else:
          cexs.append(('relation', inputs_of(e, m)))
      if reach == 0:
        r, m = e.feasible()
        if r == 'sat':
          reach = 1
          rec.sample(dict(fn='HiddenNumberParams', witness=inputs_of(e, m)))
  rec.reach(1, reach)
  for what, cex in cexs[:2]:
    bad = replay_relation(two_curves)
    rec.replayed()
    rec.violation('ec_util.EcCurve.HiddenNumberParams', 'relation',
                  'k != a + b*d (mod n): ' + what, cex,
                  dict(module='harness.props.c09', function='replay_relation',
                       args=dict(two_curves=two_curves)), bad)


def replay_relation(two_curves=True):
  """Real curves, concrete signatures; the same s is sent through every named
  curve in turn (history), plus boundary values."""
  pb, ec_util, util = _mods(fakes=False)
  curves = [c for c in ec_util.CURVE_FACTORY.values() if c is not None]
  bad = False
  svals = [1, 2, 3, 0xdeadbeef, 2**100 + 7, 2**190 - 3]
  for rep in range(2):
    for s in svals:
      for c in curves:
        n = int(c.n)
        d, k = (0x1234567 * (rep + 3)) % n or 1, (0x7654321 + s) % n or 1
        r = (k * 31337 + 5) % n or 1
        z = (s * k - r * d) % n
        a, b = c.HiddenNumberParams(r, s % n or 1, z)
        if (a + b * d - k) % n != 0 or not (0 <= a < n and 0 <= b < n):
          print('curve', c.name, 's', s, 'relation broken')
          bad = True
  return bad


def transform_order_len(rec, seed, hlens):
  pb, ec_util, util = _mods()
  rec.functions('paranoid_crypto.lib.ec_util:EcCurve.TransformOrderLen')
  rec.bounds('every named curve, hash byte lengths %s, every h in '
             '[0, 2^(8*len))' % (hlens,))
  cexs = []
  reach = 0
  curves = [c for c in ec_util.CURVE_FACTORY.values() if c is not None]
  # the harness' own table of order bit lengths (RFC 6979 qlen)
  qlen = {'secp192r1': 192, 'secp224r1': 224, 'secp256r1': 256,
          'secp384r1': 384, 'secp521r1': 521, 'secp256k1': 256,
          'brainpoolP256r1': 256, 'brainpoolP384r1': 384,
          'brainpoolP512r1': 512}
  with stubs.patched(ec_util, gmpy=stubs.GMPY):
    for c in curves:
      for ln in hlens:

        def run(e, c=c, ln=ln):
          h = ivar(e, 'h', lo=0, hi=2**(8 * ln))
          e.notes['h'] = h
          return c.TransformOrderLen(h, 8 * ln)

        for p in pysym.explore(run, max_paths=10):
          e = p.eng
          rec.path(p.kind)
          if p.kind != 'return':
            r, m = e.feasible()
            if r != 'unsat':
              cexs.append((c.name, ln, inputs_of(e, m) if m else {}))
            continue
          h = e.notes['h']
          sh = max(0, 8 * ln - qlen[c.name])
          want = (h.t / (2**sh)) % int(c.n)
          r, m, _ = e.prove(T(p.value) == want)
          if r == 'proved':
            rec.obligation('proved')
          elif r == 'unknown':
            rec.obligation('unknown', 'TransformOrderLen')
          else:
            cexs.append((c.name, ln, inputs_of(e, m)))
          if reach == 0:
            reach = 1
            rec.sample(dict(fn='TransformOrderLen', curve=c.name, hash_len=ln))
  rec.reach(1, reach)
  for name, ln, cex in cexs[:3]:
    bad = replay_tol(name, ln, cex.get('h', 0))
    rec.replayed()
    rec.violation('ec_util.EcCurve.TransformOrderLen', 'bits2int',
                  'result differs from RFC 6979 2.4 bits2int mod n',
                  dict(curve=name, hash_len=ln, h=cex.get('h', 0)),
                  dict(module='harness.props.c09', function='replay_tol',
                       args=dict(name=name, ln=ln, h=str(cex.get('h', 0)))),
                  bad)


def _curve_by_name(ec_util, name):
  for c in ec_util.CURVE_FACTORY.values():
    if c is not None and c.name == name:
      return c
  raise KeyError(name)


def replay_tol(name, ln, h):
  pb, ec_util, util = _mods(fakes=False)
  c = _curve_by_name(ec_util, name)
  ln, h = int(ln), int(h)
  n = int(c.n)
  got = c.TransformOrderLen(h, 8 * ln)
  want = (h >> max(0, 8 * ln - n.bit_length())) % n
  print('TransformOrderLen', name, ln, hex(h), '->', hex(int(got)), 'want',
        hex(want))
  return got != want


def _sym_bytes_field(e, name, length):
  out = symbytes.SymBytes()
  for i in range(length):
    t = z3.Int('%s_%d' % (name, i))
    e.assume(z3.And(t >= 0, t < 256))
    e.notes.setdefault('inputs', {})['%s_%d' % (name, i)] = t
    out.append(SInt(t))
  return out


def _be(bs):
  r = z3.IntVal(0)
  for b in bs:
    r = r * 256 + T(b)
  return r


def ecdsa_values(rec, seed, hlens, rlen):
  pb, ec_util, util = _mods()
  rec.functions('paranoid_crypto.lib.ec_util:ECDSAValues',
                'paranoid_crypto.lib.ec_util:PublicPoint',
                'paranoid_crypto.lib.util:Bytes2Int')
  rec.bounds('every named curve; r, s, x, y arbitrary byte strings of length '
             '%d (leading zeros included); message_hash arbitrary of length '
             'in %s' % (rlen, hlens))
  cexs = []
  reach = 0
  curves = [c for c in ec_util.CURVE_FACTORY.values() if c is not None]
  with stubs.patched(ec_util, gmpy=stubs.GMPY), \
      stubs.patched(util, int=symbytes.SymInt):
    for c in curves:
      for ln in hlens:

        def run(e, c=c, ln=ln):
          sig = pb.ECDSASignatureInfo()
          sig.r = _sym_bytes_field(e, 'r', rlen)
          sig.s = _sym_bytes_field(e, 's', rlen)
          sig.message_hash = _sym_bytes_field(e, 'h', ln)
          key = pb.ECKeyInfo()
          key.x = _sym_bytes_field(e, 'x', rlen)
          key.y = _sym_bytes_field(e, 'y', rlen)
          e.notes.update(sig=sig, key=key)
          return ec_util.ECDSAValues(sig, c), ec_util.PublicPoint(key)

        for p in pysym.explore(run, max_paths=2000):
          if len(cexs) >= 3:
            break
          e = p.eng
          rec.path(p.kind)
          if p.kind != 'return':
            r, m = e.feasible()
            if r != 'unsat':
              cexs.append((c.name, ln, inputs_of(e, m) if m else {}))
            continue
          sig, key = e.notes['sig'], e.notes['key']
          (r_, s_, z_), (x_, y_) = p.value
          n = int(c.n)
          sh = max(0, 8 * ln - n.bit_length())
          goal = z3.And(T(r_) == _be(sig.r), T(s_) == _be(sig.s),
                        T(z_) == (_be(sig.message_hash) / (2**sh)) % n,
                        T(x_) == _be(key.x), T(y_) == _be(key.y))
          r, m, _ = e.prove(goal)
          if r == 'proved':
            rec.obligation('proved')
          elif r == 'unknown':
            rec.obligation('unknown', 'ECDSAValues')
          else:
            cexs.append((c.name, ln, inputs_of(e, m)))
          if reach == 0:
            reach = 1
            rec.sample(dict(fn='ECDSAValues', curve=c.name, hash_len=ln))
  rec.reach(1, reach)
  for name, ln, cex in cexs[:3]:
    hb = bytes(cex.get('h_%d' % i, 0) for i in range(ln))
    rb = bytes(cex.get('r_%d' % i, 0) for i in range(rlen))
    sb = bytes(cex.get('s_%d' % i, 0) for i in range(rlen))
    bad = replay_values(name, hb.hex(), rb.hex(), sb.hex())
    rec.replayed()
    rec.violation('ec_util.ECDSAValues', 'values',
                  '(r, s, z) differ from the RFC 6979 conversions',
                  dict(curve=name, hash=hb.hex(), r=rb.hex(), s=sb.hex()),
                  dict(module='harness.props.c09', function='replay_values',
                       args=dict(name=name, hash_hex=hb.hex(), r_hex=rb.hex(),
                                 s_hex=sb.hex())), bad)


def replay_values(name, hash_hex, r_hex, s_hex):
  pb, ec_util, util = _mods(fakes=False)
  c = _curve_by_name(ec_util, name)
  sig = pb.ECDSASignatureInfo()
  sig.r = bytes.fromhex(r_hex)
  sig.s = bytes.fromhex(s_hex)
  sig.message_hash = bytes.fromhex(hash_hex)
  r, s, z = ec_util.ECDSAValues(sig, c)
  n = int(c.n)
  h = int.from_bytes(sig.message_hash, 'big')
  want = (h >> max(0, 8 * len(sig.message_hash) - n.bit_length())) % n
  print('ECDSAValues', name, hash_hex, '-> z', hex(int(z)), 'want', hex(want))
  return (int(r), int(s), int(z)) != (int.from_bytes(sig.r, 'big'),
                                      int.from_bytes(sig.s, 'big'), want)


def round_trips(rec, seed, bits, maxlen):
  pb, ec_util, util = _mods()
  rec.functions('paranoid_crypto.lib.util:Int2Bytes',
                'paranoid_crypto.lib.util:Bytes2Int')
  rec.bounds('Bytes2Int(Int2Bytes(x)) == x for every 0 <= x < 2^%d; '
             'Int2Bytes(Bytes2Int(b)) == b without leading zero bytes for '
             'every byte string of length <= %d' % (bits, maxlen))
  cexs = []
  reach = 0
  with stubs.patched(util, int=symbytes.SymInt):

    def run1(e):
      x = ivar(e, 'x', lo=0, hi=2**bits)
      e.notes['x'] = x
      by = util.Int2Bytes(x)
      return by, util.Bytes2Int(by)

    for p in pysym.explore(run1, max_paths=500):
      e = p.eng
      rec.path(p.kind)
      if p.kind != 'return':
        r, m = e.feasible()
        if r != 'unsat':
          cexs.append(('int', inputs_of(e, m) if m else {}))
        continue
      by, back = p.value
      x = e.notes['x']
      # minimal length and exact round trip
      goal = z3.And(T(back) == x.t, _be(by) == x.t,
                    z3.And([z3.And(T(b) >= 0, T(b) < 256) for b in by])
                    if len(by) else z3.BoolVal(True),
                    (T(by[0]) != 0) if len(by) else x.t == 0)
      r, m, _ = e.prove(goal, timeout_ms=120000)
      if r == 'proved':
        rec.obligation('proved')
      elif r == 'unknown':
        rec.obligation('unknown', 'Int2Bytes round trip')
      else:
        cexs.append(('int', inputs_of(e, m)))
      reach = 1
    for ln in range(0, maxlen + 1):

      def run2(e, ln=ln):
        b = _sym_bytes_field(e, 'b', ln)
        e.notes['b'] = b
        return util.Int2Bytes(util.Bytes2Int(b))

      for p in pysym.explore(run2, max_paths=500):
        e = p.eng
        rec.path(p.kind)
        if p.kind != 'return':
          r, m = e.feasible()
          if r != 'unsat':
            cexs.append(('bytes%d' % ln, inputs_of(e, m) if m else {}))
          continue
        b = e.notes['b']
        out = p.value
        k = len(out)
        if k > ln:
          goal = z3.BoolVal(False)
        else:
          goal = z3.And([T(b[i]) == 0 for i in range(ln - k)] +
                        [T(out[i]) == T(b[ln - k + i]) for i in range(k)] +
                        ([T(out[0]) != 0] if k else []))
        r, m, _ = e.prove(goal)
        if r == 'proved':
          rec.obligation('proved')
        elif r == 'unknown':
          rec.obligation('unknown', 'Bytes2Int round trip')
        else:
          cexs.append(('bytes%d' % ln, inputs_of(e, m)))
  rec.sample(dict(fn='Int2Bytes/Bytes2Int', bits=bits, maxlen=maxlen))
  rec.reach(1, reach)
  for what, cex in cexs[:3]:
    if what == 'int':
      x = cex.get('x', 0)
      bad = replay_rt(x=x)
      args = dict(x=str(x))
    else:
      ln = int(what[5:])
      hx = bytes(cex.get('b_%d' % i, 0) for i in range(ln)).hex()
      bad = replay_rt(hexbytes=hx)
      args = dict(hexbytes=hx)
    rec.replayed()
    rec.violation('util.Int2Bytes', 'round_trip',
                  'byte/int conversion does not round-trip', cex,
                  dict(module='harness.props.c09', function='replay_rt',
                       args=args), bad)


class SymHex:
  """A hex string of concrete length whose digits are symbolic nibbles."""

  def __init__(self, nibbles):
    self.nibbles = list(nibbles)

  def __len__(self):
    return len(self.nibbles)

  def __bool__(self):
    return bool(self.nibbles)

  def __radd__(self, prefix):
    if not isinstance(prefix, str) or any(c not in '0123456789abcdefABCDEF'
                                          for c in prefix):
      return NotImplemented
    return SymHex([int(c, 16) for c in prefix] + self.nibbles)

  def __add__(self, suffix):
    if isinstance(suffix, SymHex):
      return SymHex(self.nibbles + suffix.nibbles)
    return NotImplemented

  def __getitem__(self, i):
    r = self.nibbles[i]
    return SymHex(r) if isinstance(i, slice) else SymHex([r])

  def sym_int_value(self, base):
    if base != 16 or not self.nibbles:
      raise ValueError('invalid literal for int()')
    v = 0
    for d in self.nibbles:
      v = v * 16 + d
    return v

  def lower(self):
    return self

  upper = lower
  strip = lower


class _HexBytes:
  """`bytes` look-alike for util: fromhex on SymHex, the rest as in C20."""

  def __call__(self, x=None, *a):
    return symbytes.sym_bytes(x, *a)

  @staticmethod
  def fromhex(h):
    if not isinstance(h, SymHex):
      return bytes.fromhex(h)
    if len(h) % 2:
      raise ValueError('non-hexadecimal number found in fromhex() arg')
    out = symbytes.SymBytes()
    for i in range(0, len(h), 2):
      out.append(h.nibbles[i] * 16 + h.nibbles[i + 1])
    return out


def hex_strings(rec, seed, maxlen):
  """Hex2Bytes(h) is the byte string h denotes (an odd number of digits is
  completed by one leading zero digit): same number of bytes, same bytes -
  leading zero bytes preserved."""
  pb, ec_util, util = _mods()
  rec.functions('paranoid_crypto.lib.util:Hex2Bytes')
  rec.bounds('every hex string of length 0..%d (digits symbolic nibbles)' %
             maxlen)
  cexs = []
  reach = 0
  with stubs.patched(util, int=symbytes.SymInt, bytes=_HexBytes()):
    for ln in range(0, maxlen + 1):

      def run(e, ln=ln):
        ds = [ivar(e, 'h%d' % i, lo=0, hi=16) for i in range(ln)]
        e.notes['ds'] = ds
        return util.Hex2Bytes(SymHex(ds))

      for p in pysym.explore(run, max_paths=300):
        e = p.eng
        rec.path(p.kind)
        if p.kind == 'abort':
          rec.inconclusive('path aborted: %s' % p.value)
          continue
        if p.kind != 'return':
          r, m = e.feasible()
          if r != 'unsat':
            cexs.append((ln, inputs_of(e, m) if m else {}))
          continue
        ds = [d.t for d in e.notes['ds']]
        if ln % 2:
          ds = [z3.IntVal(0)] + ds
        out = list(p.value)
        if len(out) != len(ds) // 2:
          goal = z3.BoolVal(False)
        else:
          goal = z3.And([T(out[i]) == ds[2 * i] * 16 + ds[2 * i + 1]
                         for i in range(len(out))] + [z3.BoolVal(True)])
        r, m, _ = e.prove(goal)
        if r == 'proved':
          rec.obligation('proved')
        elif r == 'unknown':
          rec.obligation('unknown', 'Hex2Bytes')
        else:
          cexs.append((ln, inputs_of(e, m)))
        reach = 1
  rec.sample(dict(fn='Hex2Bytes', maxlen=maxlen))
  rec.reach(1, reach)
  for ln, cex in cexs[:3]:
    hx = ''.join('%x' % int(cex.get('h%d' % i, 0)) for i in range(ln))
    bad = replay_hex(hx)
    rec.replayed()
    rec.violation('util.Hex2Bytes', 'hex_decoding',
                  'Hex2Bytes(%r) is not the byte string the digits denote' %
                  hx, cex, dict(module='harness.props.c09',
                                function='replay_hex', args=dict(hx=hx)), bad)


def replay_hex(hx):
  pb, ec_util, util = _mods(fakes=False)
  want = bytes.fromhex(hx if len(hx) % 2 == 0 else '0' + hx)
  try:
    got = util.Hex2Bytes(hx)
  except Exception as ex:  # pylint: disable=broad-except
    print('Hex2Bytes(%r) raised %r' % (hx, ex))
    return True
  print('Hex2Bytes(%r) = %r, expected %r' % (hx, got, want))
  return bytes(got) != want


def replay_rt(x=None, hexbytes=None):
  pb, ec_util, util = _mods(fakes=False)
  if x is not None:
    x = int(x)
    by = util.Int2Bytes(x)
    print('Int2Bytes(%d) = %r' % (x, by))
    return util.Bytes2Int(by) != x or (len(by) > 0 and by[0] == 0) or (
        x > 0 and len(by) != (x.bit_length() + 7) // 8)
  b = bytes.fromhex(hexbytes)
  out = util.Int2Bytes(util.Bytes2Int(b))
  print('Int2Bytes(Bytes2Int(%r)) = %r' % (b, out))
  return out != b.lstrip(b'\x00')


def jobs(tier, seed):
  thorough = tier == 'thorough'
  out = [Job('nonce_relation', nonce_relation, dict(two_curves=False),
             timeout=600, cost=5),
         Job('nonce_relation_history', nonce_relation, dict(two_curves=True),
             timeout=1200, cost=10)]
  hl = [0, 1, 19, 20, 21, 23, 24, 25, 27, 28, 29, 31, 32, 33, 47, 48, 49, 63,
        64, 65, 66] if not thorough else list(range(0, 70))
  for i in range(4):
    out.append(Job('transform_order_len_%d' % i, transform_order_len,
                   dict(hlens=hl[i::4]), timeout=1200, cost=len(hl)))
  hl2 = [0, 1, 20, 28, 32, 33, 48, 64, 65, 66] if not thorough else list(
      range(0, 68))
  for i in range(4):
    out.append(Job('ecdsa_values_%d' % i, ecdsa_values,
                   dict(hlens=hl2[i::4], rlen=3), timeout=2400,
                   cost=2 * len(hl2)))
  out.append(Job('hex_strings', hex_strings,
                 dict(maxlen=12 if not thorough else 24), timeout=1200,
                 cost=10))
  out.append(Job('round_trips', round_trips,
                 dict(bits=40,
                      maxlen=4 if not thorough else 6), timeout=2400,
                 cost=20))
  return out
