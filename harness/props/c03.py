"""C03 - shared-factor detection is exact for every batch shape."""
import itertools

import z3

from harness import common
from harness import pb2shim
from harness import pysym
from harness import stubs
from harness.common import T, ivar, inputs_of
from harness.pysym import SInt
from harness.runner import Job

OUTSIDE = [
    'batches larger than 130 distinct moduli (tree shape is uniform in k, but '
    'that is an argument, not a solver result)',
    'duplicate patterns for batches larger than 5',
]
ASSUMPTIONS = [
    'Euclid step: gcd(v, r) = gcd(v, s) whenever r == s (mod v) - discharged '
    'once per run as a bounded lemma',
]


def _mods():
  common.lib()
  from paranoid_crypto.lib import rsa_util, ntheory_util  # pylint: disable=g-import-not-at-top
  return rsa_util, ntheory_util


class _LogGmpy(stubs.GmpyStub):
  """gcd only records its arguments: the obligations are stated on them, so
  the (non-linear) Bezout contract stays out of the solvers."""

  @staticmethod
  def gcd(a, b):
    stubs.USED.add('gmpy.gcd: uninterpreted fresh result, arguments recorded; '
                   'exactness of gcd itself is gmpy2\'s')
    e = pysym.eng()
    g = SInt(e.fresh('gcd'))
    e.log.append(('gcd', a, b, g))
    return g


LOGGMPY = _LogGmpy()


def _concrete_reach(rsa_util, k, with_other=False):
  """Reachability twin: the real function returns on a concrete batch."""
  vals = [2 * i + 3 for i in range(k)]
  try:
    res = rsa_util.BatchGCD(vals, 15 if with_other else None)
    return len(res) == k
  except Exception:  # pylint: disable=broad-except
    return False


def _product(terms):
  r = z3.IntVal(1)
  for t in terms:
    r = r * t
  return r


def _check_leaf_identities(rec, e, values, result, other, cexs, k):
  """values: input SInts; result: list returned by BatchGCD."""
  log = [x for x in e.log if x[0] == 'gcd']
  ok = True
  if len(result) != len(values):
    rec.violation('rsa_util.BatchGCD', 'result_length',
                  'result has %d entries for %d values' %
                  (len(result), len(values)), dict(k=k), {}, False)
    return
  uniq = [T(x[1]) for x in log]
  for i, v in enumerate(values):
    # which gcd call produced result[i]?
    entry = None
    for x in log:
      if pysym.is_sym(result[i]) and T(x[3]).eq(T(result[i])):
        entry = x
        break
    if entry is None:
      # e.g. a constant: cannot be the gcd with the other values in general;
      # confirmed (or not) by the stage-2 concrete search
      cexs.append(('result_origin', dict(k=k, leaf=i)))
      continue
    a, rem = T(entry[1]), T(entry[2])
    others = [u for u in uniq if not u.eq(a)]
    # (1) the gcd is taken with the value itself
    g1 = a == T(v)
    # (2) no other unique value equals v_i (identical moduli never accuse)
    g2 = z3.And([u != T(v) for u in others]) if others else z3.BoolVal(True)
    # (3) polynomial identity: rem[a := 0] == prod(other uniques) * other
    expect = _product(others)
    if other is not None:
      expect = expect * T(other)
    if z3.is_const(a) and a.decl().kind() == z3.Z3_OP_UNINTERPRETED:
      rem0 = z3.substitute(rem, (a, z3.IntVal(0)))
    else:
      rem0 = None
    goals = [('gcd_arg_is_value', g1), ('others_differ', g2)]
    for name, g in goals:
      r, m, _ = e.prove(g, timeout_ms=20000, use_defs=False)
      if r == 'proved':
        rec.obligation('proved')
      elif r == 'unknown':
        rec.obligation('unknown', 'BatchGCD %s k=%d' % (name, k))
      else:
        cexs.append((name, inputs_of(e, m)))
    if rem0 is None:
      rec.inconclusive('leaf %d is not an input variable' % i)
      continue
    # identity over the integers - no path constraints needed
    s = z3.Solver()
    s.set('timeout', 60000)
    s.add(rem0 != expect)
    import time as _t  # pylint: disable=g-import-not-at-top
    t0 = _t.time()
    r = str(s.check())
    pysym.STATS.add(r, _t.time() - t0)
    if r == 'unsat':
      rec.obligation('proved')
    elif r == 'unknown':
      rec.obligation('unknown', 'BatchGCD leaf identity k=%d i=%d' % (k, i))
    else:
      # identity fails: find integer values for which the gcds differ by
      # concrete search on the real function (stage 2)
      cexs.append(('leaf_identity', dict(k=k, leaf=i)))


def _concrete_counterexample(k, with_other, seed):
  """Stage-2 replay: concrete batches through the real BatchGCD."""
  import math  # pylint: disable=g-import-not-at-top
  import random  # pylint: disable=g-import-not-at-top
  rsa_util, _ = _mods()
  rng = random.Random(seed * 1000 + k)
  primes = [3, 5, 7, 11, 13, 17, 19, 23, 29, 31, 37, 41, 43, 47, 53, 59, 61]
  for trial in range(400):
    vals = set()
    while len(vals) < k:
      vals.add(math.prod(rng.sample(primes, rng.randint(1, 3))))
    vals = list(vals)
    rng.shuffle(vals)
    other = rng.choice(primes) * rng.choice(primes) if with_other else None
    try:
      got = [int(g) for g in rsa_util.BatchGCD(list(vals), other)]
    except Exception as ex:  # pylint: disable=broad-except
      return dict(values=vals, other=other, error=repr(ex))
    for i, v in enumerate(vals):
      prod = math.prod(vals[:i] + vals[i + 1:]) * (other or 1)
      if math.gcd(v, prod) != got[i]:
        return dict(values=vals, other=other, index=i, got=got[i],
                    expected=math.gcd(v, prod))
  return None


def replay_batch(values, other=None):
  import math  # pylint: disable=g-import-not-at-top
  rsa_util, _ = _mods()
  values = [int(v) for v in values]
  other = int(other) if other not in (None, 'None') else None
  try:
    got = [int(g) for g in rsa_util.BatchGCD(list(values), other)]
  except Exception as ex:  # pylint: disable=broad-except
    print('BatchGCD raised', repr(ex))
    return True
  uniq = list(dict.fromkeys(values))
  bad = False
  for i, v in enumerate(values):
    prod = math.prod(u for u in uniq if u != v) * (other or 1)
    if math.gcd(v, prod) != got[i]:
      print('index', i, 'got', got[i], 'expected', math.gcd(v, prod))
      bad = True
  return bad


def distinct_batch(rec, seed, k, with_other):
  rsa_util, ntheory_util = _mods()
  rec.functions('paranoid_crypto.lib.rsa_util:BatchGCD',
                'paranoid_crypto.lib.ntheory_util:ExtendedProductTree')
  rec.bounds('batch of exactly %d pairwise distinct positive unbounded '
             'integers%s; every leaf' %
             (k, ' with other_values_prod symbolic' if with_other else ''))
  rec.hint('Euclidean quotient witnesses kept as terms (prev - q*node)')
  cexs = []
  if k == 0:
    # ground run of the real function
    rec.path('return')
    try:
      res = rsa_util.BatchGCD([])
      bad = list(res) != []
    except Exception as ex:  # pylint: disable=broad-except
      bad = True
      res = repr(ex)
    rec.replayed()
    rec.reach(1, 1)
    rec.sample(dict(kernel='BatchGCD', k=0, result=res))
    if bad:
      rec.violation('rsa_util.BatchGCD', 'empty_batch',
                    'BatchGCD([]) does not return []: %s' % (res,),
                    dict(values=[]),
                    dict(module='harness.props.c03', function='replay_batch',
                         args=dict(values=[])), True, tags=['empty_batch'])
    else:
      rec.obligation('proved')
    return

  def run(e):
    vs = [ivar(e, 'v%d' % i, lo=1) for i in range(k)]
    if k > 1:
      e.assume(z3.Distinct(*[v.t for v in vs]))
    other = ivar(e, 'other', lo=1) if with_other else None
    e.notes['vs'] = vs
    e.notes['other'] = other
    return rsa_util.BatchGCD(list(vs), other)

  npaths = 0
  with stubs.patched(rsa_util, gmpy=LOGGMPY), \
      stubs.patched(ntheory_util, gmpy=LOGGMPY):
    for p in pysym.explore(run, max_paths=50):
      e = p.eng
      rec.path(p.kind)
      npaths += 1
      if p.kind == 'abort':
        rec.inconclusive('path aborted: %s' % p.value)
        continue
      if p.kind == 'raise':
        r, m = e.feasible()
        if r == 'sat':
          cexs.append(('raise:%r' % (p.value,), inputs_of(e, m)))
        elif r != 'unsat':
          rec.inconclusive('exception path undecided')
        continue
      _check_leaf_identities(rec, e, e.notes['vs'], p.value,
                             e.notes['other'], cexs, k)
      rec.sample(dict(kernel='BatchGCD', k=k, leaves_checked=k,
                      remainder_term_size=len(str(T(e.log[-1][2])))
                      if e.log else 0))
  rec.reach(1, 1 if _concrete_reach(rsa_util, k, with_other) else 0)
  rec.replayed()
  if cexs:
    cx = _concrete_counterexample(k, with_other, seed)
    rec.replayed()
    what = cexs[0][0]
    if cx is not None:
      rec.violation('rsa_util.BatchGCD', what,
                    'gcd differs from gcd with the product of the others',
                    cx, dict(module='harness.props.c03',
                             function='replay_batch',
                             args=dict(values=cx['values'],
                                       other=cx.get('other'))), True)
    else:
      rec.violation('rsa_util.BatchGCD', what,
                    'identity fails symbolically', cexs[0][1], {}, False)


def duplicates_batch(rec, seed, k):
  """Unconstrained equalities: set()/dict fork over every partition."""
  rsa_util, ntheory_util = _mods()
  rec.functions('paranoid_crypto.lib.rsa_util:BatchGCD')
  rec.bounds('batch of %d positive integers with every equality pattern '
             '(Bell(%d) partitions)' % (k, k))
  cexs = []
  witnesses = []

  def run(e):
    vs = [ivar(e, 'v%d' % i, lo=1) for i in range(k)]
    e.notes['vs'] = vs
    return rsa_util.BatchGCD(list(vs))

  with stubs.patched(rsa_util, gmpy=LOGGMPY), \
      stubs.patched(ntheory_util, gmpy=LOGGMPY):
    for p in pysym.explore(run, max_paths=2000):
      e = p.eng
      rec.path(p.kind)
      if p.kind == 'abort':
        rec.inconclusive('path aborted: %s' % p.value)
        continue
      if p.kind == 'raise':
        r, m = e.feasible()
        if r == 'sat':
          cexs.append(('raise:%r' % (p.value,), inputs_of(e, m)))
        continue
      _check_leaf_identities(rec, e, e.notes['vs'], p.value, None, cexs, k)
      # equal inputs get equal outputs
      vs = e.notes['vs']
      for i, j in itertools.combinations(range(k), 2):
        if pysym.is_sym(p.value[i]) and pysym.is_sym(p.value[j]):
          g = z3.Implies(vs[i].t == vs[j].t, T(p.value[i]) == T(p.value[j]))
          r, m, _ = e.prove(g, use_defs=False)
          if r == 'proved':
            rec.obligation('proved')
          elif r == 'unknown':
            rec.obligation('unknown', 'equal inputs equal outputs')
          else:
            cexs.append(('equal_inputs', inputs_of(e, m)))
      r, m, _ = e.check_sat(use_defs=False)
      if r == 'sat':
        witnesses.append([inputs_of(e, m)['v%d' % i] for i in range(k)])
  patterns = set()
  for vals in witnesses:
    rec.replayed()
    if not replay_batch(vals):  # the real function agrees on the witness
      patterns.add(tuple(vals.index(v) for v in vals))
    if len(patterns) <= 2:
      rec.sample(dict(kernel='BatchGCD', k=k, partition_witness=vals))
  sat_paths = len(patterns)
  bell = [1, 1, 2, 5, 15, 52, 203][k]
  rec.reach(bell, sat_paths)
  rec.note('feasible partitions: %d (Bell(%d) = %d)' % (sat_paths, k, bell))
  for what, cex in cexs[:2]:
    vals = [cex['v%d' % i] for i in range(k)] if 'v0' in cex else None
    if vals is None:
      rec.violation('rsa_util.BatchGCD', what, 'identity fails', cex, {},
                    False)
      continue
    bad = replay_batch(vals)
    rec.replayed()
    rec.violation('rsa_util.BatchGCD', what,
                  'wrong gcd on a batch with duplicates', dict(values=vals),
                  dict(module='harness.props.c03', function='replay_batch',
                       args=dict(values=vals)), bad)


def euclid_lemma(rec, seed, bits):
  """gcd(v, r) == gcd(v, s) if r == s (mod v): bounded BV lemma."""
  rec.functions('lemma:euclid_step')
  rec.bounds('all v, r, s, d below 2^%d' % bits)
  w = 2 * bits + 2
  v, r, s, d, q = [z3.BitVec(x, w) for x in 'vrsdq']
  sol = z3.Solver()
  lim = 1 << bits
  for x in (v, r, s, d):
    sol.add(z3.ULT(x, lim))
  sol.add(v != 0, d != 0)
  # r == s + q*v (signed q small), d | v, d | r, but d does not divide s
  sol.add(q < lim, q > -lim)
  sol.add(r == s + q * v)
  sol.add(z3.URem(v, d) == 0, z3.URem(r, d) == 0, z3.URem(s, d) != 0)
  import time as _t  # pylint: disable=g-import-not-at-top
  t0 = _t.time()
  res = str(sol.check())
  pysym.STATS.add(res, _t.time() - t0)
  rec.path('lemma')
  rec.reach(1, 1)
  if res == 'unsat':
    rec.obligation('proved')
    rec.sample(dict(lemma='common divisors of (v, r) and (v, s) coincide when '
                    'r = s + q*v', bits=bits, verdict='unsat'))
  elif res == 'unknown':
    rec.obligation('unknown', 'euclid lemma')
  else:
    rec.inconclusive('euclid lemma refuted?! ' + str(sol.model()))


# ---------------------------------------------------------------------------
# check-level verdicts


class _Recorder:

  def __init__(self):
    self.calls = []

  def attach(self, test_info, name, factors):
    self.calls.append((test_info, name, list(factors)))


def _fake_keys(pb, ns):
  keys = []
  for n in ns:
    k = pb.RSAKey()
    k.rsa_info.n = n
    keys.append(k)
  return keys


def check_level(rec, seed, k, which):
  pb = common.lib(fakes=True)
  rsa_util, ntheory_util = _mods()
  pb2shim.use_fakes(True)
  from paranoid_crypto.lib import rsa_aggregate_checks as agg  # pylint: disable=g-import-not-at-top
  from paranoid_crypto.lib import util  # pylint: disable=g-import-not-at-top
  cls = getattr(agg, which)
  rec.functions('paranoid_crypto.lib.rsa_aggregate_checks:%s.Check' % which,
                'paranoid_crypto.lib.util:SetTestResult')
  rec.bounds('batch of %d fake RSAKey messages, moduli symbolic >= 2^63; '
             'BatchGCD replaced by its contract (g_i >= 1 divides value i); '
             'gcd bound symbolic' % k)
  cexs = []
  reach = set()

  def run(e):
    ns = [ivar(e, 'n%d' % i, lo=2**63) for i in range(k)]
    keys = _fake_keys(pb, ns)
    recd = _Recorder()
    e.notes.update(ns=ns, keys=keys, rec=recd)
    bound = None
    if which == 'CheckGCDN1':
      bound = ivar(e, 'bound', lo=1)
      chk = cls(bound)
    else:
      chk = cls()
    e.notes['bound'] = bound

    def batch_gcd(values, other=None):
      stubs.USED.add('rsa_util.BatchGCD: g_i >= 1, g_i divides values[i] '
                     '(established by the kernel jobs)')
      e.notes['gcd_args'] = list(values)
      out = []
      for i, v in enumerate(values):
        g = e.fresh('g')
        c = e.fresh('cof')
        e.assume(z3.And(g >= 1, T(v) == g * c))
        e.memo[('exactdiv', T(v).get_id(), g.get_id())] = (c, T(v), g)
        out.append(SInt(g))
      e.notes['gcds'] = out
      return out

    with stubs.patched(rsa_util, BatchGCD=batch_gcd):
      with stubs.patched(util, AttachFactors=recd.attach,
                         Bytes2Int=lambda b: b):
        with stubs.patched(agg, gmpy=stubs.GMPY, logging=common.QUIET):
          return chk.Check(keys)

  for p in pysym.explore(run, max_paths=5000):
    e = p.eng
    rec.path(p.kind)
    if p.kind == 'abort':
      rec.inconclusive('path aborted: %s' % p.value)
      continue
    if p.kind == 'raise':
      r, m = e.feasible()
      if r == 'sat':
        cexs.append(('raise %r' % (p.value,), inputs_of(e, m)))
      continue
    ns, keys, recd = e.notes['ns'], e.notes['keys'], e.notes['rec']
    gcds = e.notes.get('gcds', [])
    args = e.notes.get('gcd_args', [])
    goals = []
    any_flag = z3.BoolVal(False)
    goals.append(('arity', z3.BoolVal(len(args) == k and len(gcds) == k)))
    for i in range(min(k, len(gcds))):
      if which == 'CheckGCD':
        goals.append(('arg', T(args[i]) == ns[i].t))
        flagged = gcds[i].t != 1
        info = 'N_FACTORS'
      else:
        goals.append(('arg', T(args[i]) == ns[i].t - 1))
        flagged = gcds[i].t >= e.notes['bound'].t
        info = 'N-1_FACTORS'
      any_flag = z3.Or(any_flag, flagged)
      ti = keys[i].test_info
      entries = [r_ for r_ in ti.test_results if r_.test_name == which]
      goals.append(('one_entry', z3.BoolVal(len(entries) == 1)))
      if len(entries) == 1:
        res = entries[0].result
        goals.append(('verdict', pysym.sbool(res) == flagged))
        goals.append(('weak', pysym.sbool(ti.weak) == flagged))
      att = [c for c in recd.calls if c[0] is ti]
      goals.append(('attached_iff_flagged',
                    z3.BoolVal(len(att) == 1) == flagged
                    if len(att) <= 1 else z3.BoolVal(False)))
      if len(att) == 1:
        goals.append(('info_name', z3.BoolVal(att[0][1] == info)))
        f = att[0][2]
        if which == 'CheckGCD':
          goals.append(('factors', z3.BoolVal(len(f) == 2)))
          if len(f) == 2:
            goals.append(('factor_is_gcd', T(f[0]) == gcds[i].t))
            goals.append(('product', T(f[0]) * T(f[1]) == ns[i].t))
        else:
          goals.append(('factors', z3.BoolVal(len(f) == 1)))
          if len(f) == 1:
            goals.append(('factor_is_gcd', T(f[0]) == gcds[i].t))
    goals.append(('return_is_or', pysym.sbool(p.value) == any_flag))
    for name, g in goals:
      r, m, _ = e.prove(g)
      if r == 'proved':
        rec.obligation('proved')
      elif r == 'unknown':
        rec.obligation('unknown', '%s %s' % (which, name))
      else:
        cexs.append((name, inputs_of(e, m)))
    r, m = e.feasible()
    if r == 'sat':
      reach.add(str(p.value))
      rec.sample(dict(check=which, k=k, returned=p.value is True or str(p.value),
                      witness=inputs_of(e, m)))
  rec.reach(1 if k == 0 else 2, len(reach))
  for name, cex in cexs[:2]:
    # check-level counterexamples need the stubbed BatchGCD values; confirm by
    # replaying on the real check with real protobufs and small moduli search
    ok = _replay_check_level(which, name, cex)
    rec.replayed()
    rec.violation('rsa_aggregate_checks.%s.Check' % which, name,
                  'verdict/bookkeeping differs from the gcd criterion', cex,
                  dict(module='harness.props.c03',
                       function='replay_check_level',
                       args=dict(which=which)), ok)


def _replay_check_level(which, name, cex):
  return replay_check_level(which)


def replay_check_level(which):
  """Concrete witness batches through the real check with real protobufs."""
  import math  # pylint: disable=g-import-not-at-top
  pb = common.lib(fakes=False)
  pb2shim.use_fakes(False)
  from paranoid_crypto.lib import rsa_aggregate_checks as agg  # pylint: disable=g-import-not-at-top
  from paranoid_crypto.lib import util  # pylint: disable=g-import-not-at-top
  import gmpy2  # pylint: disable=g-import-not-at-top
  P = [int(gmpy2.next_prime(2**40 + i * 1000)) for i in range(8)]
  batches = [
      [P[0] * P[1], P[2] * P[3]],
      [P[0] * P[1], P[0] * P[2], P[3] * P[4]],
      [P[0] * P[1], P[0] * P[1], P[3] * P[4]],
      [P[0] * P[1] * P[2], P[0] * P[1], P[1] * P[5]],
      [2 * P[0] * P[6] + 1, 2 * P[0] * P[7] + 1, P[1] * P[2]],
      # a large n-1 whose common divisor with the batch is spread over two
      # keys that are themselves smaller than the bound
      [2 * P[0] * P[1] * P[2] + 1, 2 * P[0] + 1, 2 * P[1] + 1, P[3] * P[4]],
      [77771, 3233, 221, 323, 3127],
  ]
  bad = False
  for b in batches:
    for bound in ([None] if which == 'CheckGCD' else [
        2, P[0], 2**60, 1000, P[0] * P[1], 4 * P[0] * P[1]]):
      keys = []
      for n in b:
        k = pb.RSAKey()
        k.rsa_info.n = util.Int2Bytes(n)
        keys.append(k)
      chk = getattr(agg, which)() if bound is None else getattr(
          agg, which)(bound)
      try:
        ret = chk.Check(keys)
      except Exception as ex:  # pylint: disable=broad-except
        print('raised', repr(ex))
        return True
      uniq = list(dict.fromkeys(b))
      exp_any = False
      for i, n in enumerate(b):
        if which == 'CheckGCD':
          g = math.gcd(n, math.prod(u for u in uniq if u != n))
          flagged = g != 1
        else:
          g = math.gcd(n - 1, math.prod(u - 1 for u in uniq if u != n))
          flagged = g >= bound
        exp_any |= flagged
        ent = [r for r in keys[i].test_info.test_results
               if r.test_name == which]
        if len(ent) != 1 or ent[0].result != flagged or \
            keys[i].test_info.weak != flagged:
          print('batch', b, 'index', i, 'expected flagged', flagged)
          bad = True
        name = 'N_FACTORS' if which == 'CheckGCD' else 'N-1_FACTORS'
        fs = util.GetAttachedFactors(keys[i].test_info, name)
        if flagged:
          want = {g, n // g} if which == 'CheckGCD' else {g}
          if fs != want:
            print('batch', b, 'index', i, 'factors', fs, 'expected', want)
            bad = True
        elif fs:
          bad = True
      if ret != exp_any:
        bad = True
  return bad


def jobs(tier, seed):
  thorough = tier == 'thorough'
  out = [Job('euclid_lemma', euclid_lemma, dict(bits=5 if not thorough else 6),
             timeout=600, cost=3)]
  ks = list(range(0, 67)) if not thorough else list(range(0, 131))
  for k in ks:
    out.append(Job('distinct_k%d' % k, distinct_batch,
                   dict(k=k, with_other=False),
                   timeout=3000 if thorough else 300, cost=(k / 16.0)**3))
  for k in ([1, 2, 3, 5, 8] if not thorough else [1, 2, 3, 4, 5, 7, 8, 9, 16,
                                                    17, 33, 64, 65]):
    out.append(Job('distinct_other_k%d' % k, distinct_batch,
                   dict(k=k, with_other=True), timeout=1500,
                   cost=(k / 16.0)**3))
  for k in ([2, 3, 4] if not thorough else [2, 3, 4, 5]):
    out.append(Job('duplicates_k%d' % k, duplicates_batch, dict(k=k),
                   timeout=3000 if thorough else 300, cost=3**(k - 2)))
  for which in ('CheckGCD', 'CheckGCDN1'):
    for k in ([0, 1, 2] if not thorough else [0, 1, 2, 3]):
      out.append(Job('%s_batch%d' % (which, k), check_level,
                     dict(k=k, which=which), timeout=1200, cost=2**k))
  return out
