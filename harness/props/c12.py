"""C12 - NIST SP 800-22 statistics: integer statistics, formula structure,
thresholds and parameter ladders."""
import fractions
import itertools

import z3

from harness import common
from harness import pysym
from harness import stubs
from harness.common import T, ivar, bvar, inputs_of
from harness.pysym import SInt, SReal
from harness.runner import Job

OUTSIDE = [
    'floating-point tolerance and the values of erfc / igamc / FFT (special '
    'functions are uninterpreted: only the formula structure is compared)',
    'the embedded probability tables (exact rational recomputation is '
    'arithmetic, not satisfiability)',
    'invariance under complement / reverse / rotation beyond the integer '
    'statistics; Spectral (FFT); strings longer than the stated lengths',
    'p in [0, 1] for CumulativeSumsPValue (does not follow structurally)',
    'number of cycles J of the random excursion tests',
]
ASSUMPTIONS = [
    'math.erfc / erf / sqrt / log, util.Igamc, util.BinomialCdf are '
    'uninterpreted real functions (congruence only)',
]


def _mods():
  common.lib()
  from paranoid_crypto.lib.randomness_tests import nist_suite, util, berlekamp_massey  # pylint: disable=g-import-not-at-top
  from paranoid_crypto.lib.randomness_tests import extended_nist_suite  # pylint: disable=g-import-not-at-top
  return nist_suite, util, berlekamp_massey, extended_nist_suite


def _real(x):
  if isinstance(x, float):
    f = fractions.Fraction(x)
    return z3.Q(f.numerator, f.denominator)
  if isinstance(x, fractions.Fraction):
    return z3.Q(x.numerator, x.denominator)
  r = pysym._to_sreal(x)
  return r.t


_UF = {}


def uf(name, arity=1):
  key = (name, arity)
  if key not in _UF:
    _UF[key] = z3.Function('uf_' + name, *([z3.RealSort()] * (arity + 1)))
  return _UF[key]


def _uf_call(name, *args):
  stubs.USED.add('%s: uninterpreted real function' % name)
  return SReal(uf(name, len(args))(*[_real(a) for a in args]))


class _Math:
  """math look-alike: special functions are uninterpreted on proxies."""
  import math as _m
  pi = _m.pi
  e = _m.e

  @staticmethod
  def sqrt(x):
    r = _uf_call('sqrt', x)
    # the only facts about sqrt that are used: sign
    xr = _real(x)
    pysym.eng().assume(z3.And(r.t >= 0, z3.Implies(xr > 0, r.t > 0)))
    return r

  @staticmethod
  def erfc(x):
    return _uf_call('erfc', x)

  @staticmethod
  def erf(x):
    return _uf_call('erf', x)

  @staticmethod
  def log(x, base=None):
    if base is None:
      return _uf_call('log', x)
    return _uf_call('log%s' % base, x)

  @staticmethod
  def ceil(x):
    import math  # pylint: disable=g-import-not-at-top
    return math.ceil(x)

  @staticmethod
  def exp(x):
    return _uf_call('exp', x)


def _float_ops():
  """Lets SReal absorb python floats exactly (binary rationals)."""
  orig = pysym._to_sreal

  def to_sreal(x):
    if isinstance(x, float):
      f = fractions.Fraction(x)
      return SReal(z3.Q(f.numerator, f.denominator))
    return orig(x)

  pysym._to_sreal = to_sreal
  return orig


def _prove(rec, e, goal, what, cexs, tag, timeout_ms=60000):
  r, m, _ = e.prove(goal, timeout_ms=timeout_ms)
  if r == 'proved':
    rec.obligation('proved')
    return True
  if r == 'unknown':
    rec.obligation('unknown', what)
    return False
  cexs.append((tag, inputs_of(e, m)))
  return False


# ---------------------------------------------------------------------------
# RandomWalk: cumulative sums statistics


def random_walk(rec, seed, n):
  ns, util, bm, ext = _mods()
  rec.functions('paranoid_crypto.lib.randomness_tests.nist_suite:RandomWalk')
  rec.bounds('every bit string of length %d (symbolic +-1 steps)' % n)
  cexs = []
  npaths = 0
  calls = []

  def run(e):
    steps = []
    for i in range(n):
      b = ivar(e, 'b%d' % i, lo=-1, hi=2)
      e.assume(b.t != 0)
      steps.append(b)
    e.notes['steps'] = steps
    del calls[:]

    def bits_stub(bits, length):
      stubs.USED.add('util.Bits: hands over the symbolic +-1 list (its own '
                     'definition is outside: C-level translate)')
      return list(steps)

    def cusum(nn, z):
      calls.append((nn, z))
      return SReal(pysym.eng().fresh('cusum_p', 'real'))

    with stubs.patched(util, Bits=bits_stub), \
        stubs.patched(ns, CumulativeSumsPValue=cusum, math=_Math):
      return ns.RandomWalk(0, n)

  for p in pysym.explore(run, max_paths=100000):
    e = p.eng
    rec.path(p.kind)
    npaths += 1
    steps = e.notes['steps']
    if p.kind != 'return':
      r, m = e.feasible()
      if r == 'sat':
        cexs.append(('raises %r' % (p.value,), inputs_of(e, m), []))
      elif r != 'unsat':
        rec.inconclusive('path undecided')
      continue
    if len(calls) != 2:
      cexs.append(('cusum_calls', {}, []))
      continue
    (n1, zf), (n2, zb) = calls
    # definitions
    S = [z3.IntVal(0)]
    for s_ in steps:
      S.append(S[-1] + s_.t)
    absv = lambda t: z3.If(t >= 0, t, -t)

    def maxof(ts):
      r_ = ts[0]
      for t in ts[1:]:
        r_ = z3.If(t > r_, t, r_)
      return r_

    zf_def = maxof([absv(S[k]) for k in range(1, n + 1)])
    zb_def = maxof([absv(S[n] - S[n - k]) for k in range(1, n + 1)])
    for nm, got, want in (('forward', zf, zf_def), ('reverse', zb, zb_def)):
      r, m, _ = e.prove(z3.And(T(got) == want, z3.BoolVal(n1 == n and
                                                           n2 == n)))
      if r == 'proved':
        rec.obligation('proved')
      elif r == 'unknown':
        rec.obligation('unknown', 'cusum ' + nm)
      else:
        cexs.append(('cusum_' + nm, inputs_of(e, m), [nm]))
    if npaths == 1:
      rec.sample(dict(fn='RandomWalk', n=n, statistic='max |S_k| fwd / rev'))
  rec.reach(1, 1 if npaths else 0)
  seen = set()
  for tag, cex, extra in cexs:
    bits = [cex.get('b%d' % i, 1) for i in range(n)]
    bad, tags, detail = replay_walk(bits)
    key = (tag.split(' ')[0], tuple(tags))
    if key in seen:
      continue
    seen.add(key)
    rec.replayed()
    rec.violation('nist_suite.RandomWalk', tag.split(' ')[0], detail,
                  dict(steps=bits),
                  dict(module='harness.props.c12', function='replay_walk_cmd',
                       args=dict(steps=bits)), bad, tags=tags)
    if len(seen) >= 4:
      break


def replay_walk(steps):
  """Returns (violates, tags, detail) for a concrete +-1 walk."""
  ns, util, bm, ext = _mods()
  steps = [int(x) for x in steps]
  n = len(steps)
  bits = sum(1 << i for i, s in enumerate(steps) if s == 1)
  # util.Bits yields bit i of the string as step i? replay through the real
  # function with the recorded statistic
  rec_ = []
  orig = ns.CumulativeSumsPValue
  ns.CumulativeSumsPValue = lambda nn, z: rec_.append((nn, z)) or 0.5
  try:
    try:
      ns.RandomWalk(bits, n)
    except Exception as ex:  # pylint: disable=broad-except
      return True, ['raises'], 'RandomWalk raised %r' % (ex,)
  finally:
    ns.CumulativeSumsPValue = orig
  walk = [int(b) for b in util.Bits(bits, n)]
  S = [0]
  for s in walk:
    S.append(S[-1] + s)
  zf = max(abs(x) for x in S[1:])
  zb = max(abs(S[n] - S[n - k]) for k in range(1, n + 1))
  got_f, got_b = rec_[0][1], rec_[1][1]
  tags = []
  if got_f == zf and got_b != zb:
    one_sided = all(x <= 0 for x in S) or all(x >= 0 for x in S)
    if one_sided and got_b == zb - 1:
      tags.append('walk_one_sided_reverse_off_by_one')
  detail = ('walk %r: cusum forward %r (definition %d), reverse %r '
            '(definition %d)' % (walk, got_f, zf, got_b, zb))
  return (got_f != zf or got_b != zb), tags, detail


def replay_walk_cmd(steps):
  bad, tags, detail = replay_walk(steps)
  print(detail, tags)
  return bad


# ---------------------------------------------------------------------------
# formula structure with uninterpreted special functions


def formulas(rec, seed):
  ns, util, bm, ext = _mods()
  rec.functions('paranoid_crypto.lib.randomness_tests.nist_suite:Frequency',
                'paranoid_crypto.lib.randomness_tests.nist_suite:Runs',
                'paranoid_crypto.lib.randomness_tests.nist_suite:'
                'BlockFrequencyImpl',
                'paranoid_crypto.lib.randomness_tests.nist_suite:ChiSquare')
  rec.bounds('n symbolic in [1, 2^30); statistics (ones, runs, per-block '
             'ones, category counts) symbolic; special functions '
             'uninterpreted: the returned p-value TERM must equal the SP '
             '800-22 formula')
  cexs = []
  orig = _float_ops()
  done = 0
  try:
    # Frequency and Runs
    def run1(e):
      n = ivar(e, 'n', lo=1, hi=2**30)
      ones = ivar(e, 'ones', lo=0)
      e.assume(ones.t <= n.t)
      runs = ivar(e, 'runs', lo=1)
      e.assume(runs.t <= n.t)
      e.notes.update(n=n, ones=ones, runs=runs)
      with stubs.patched(util, BitCount=lambda s: ones,
                         Runs=lambda s, l: runs), \
          stubs.patched(ns, math=_Math):
        return ns.Frequency(0, n), ns.Runs(0, n)

    for p in pysym.explore(run1, max_paths=50):
      e = p.eng
      rec.path(p.kind)
      if p.kind != 'return':
        r, m = e.feasible()
        if r == 'sat':
          # pi*(1-pi) == 0 divides by zero for constant strings (NIST skips
          # the test there); accept ZeroDivisionError only in that case
          n, ones = e.notes['n'], e.notes['ones']
          ok, _, _ = e.prove(z3.Or(ones.t == 0, ones.t == n.t))
          if not (isinstance(p.value, ZeroDivisionError) and ok == 'proved'):
            cexs.append(('raises %r' % (p.value,), inputs_of(e, m)))
        continue
      n, ones, runs = (e.notes[k].t for k in ('n', 'ones', 'runs'))
      pf, pr = p.value
      sq, erfc = uf('sqrt'), uf('erfc')
      R = z3.ToReal
      absr = lambda t: z3.If(t >= 0, t, -t)
      want_f = erfc(absr(R(2 * ones - n)) / sq(R(n)) / sq(z3.RealVal(2)))
      pi = R(ones) / R(n)
      want_r = erfc(absr(R(runs) - 2 * R(n) * pi * (1 - pi)) /
                    (2 * sq(2 * R(n)) * pi * (1 - pi)))
      _prove(rec, e, T(pf) == want_f, 'Frequency formula', cexs, 'Frequency')
      _prove(rec, e, T(pr) == want_r, 'Runs formula', cexs, 'Runs')
      done += 1

    # BlockFrequencyImpl and ChiSquare
    def run2(e):
      m = ivar(e, 'm', lo=1, hi=2**20)
      cs = [ivar(e, 'c%d' % i, lo=0) for i in range(3)]
      for c in cs:
        e.assume(c.t <= m.t)
      e.notes.update(m=m, cs=cs)
      it = iter(cs)
      with stubs.patched(util, BitCount=lambda s: next(it),
                         Igamc=lambda a, x: _uf_call('igamc', a, x)), \
          stubs.patched(ns, math=_Math):
        p1 = ns.BlockFrequencyImpl([0, 0, 0], m)
        cnt = [ivar(e, 'v%d' % i, lo=0, hi=1000) for i in range(4)]
        e.notes['cnt'] = cnt
        prob = [0.2148, 0.3672, 0.2305, 0.1875]
        p2 = ns.ChiSquare(cnt, prob, 3)
        p3 = ns.ChiSquareUniform(cnt)
        return p1, p2, p3

    for p in pysym.explore(run2, max_paths=50):
      e = p.eng
      rec.path(p.kind)
      if p.kind != 'return':
        r, mdl = e.feasible()
        if r == 'sat':
          cnt = e.notes.get('cnt')
          okz = 'x'
          if cnt is not None:
            okz, _, _ = e.prove(z3.And([c.t == 0 for c in cnt]))
          if not (isinstance(p.value, ZeroDivisionError) and okz == 'proved'):
            cexs.append(('raises %r' % (p.value,), inputs_of(e, mdl)))
        continue
      m, cs, cnt = e.notes['m'].t, e.notes['cs'], e.notes['cnt']
      R = z3.ToReal
      ig = uf('igamc', 2)
      chi = 4 * R(m) * sum(((R(c.t) / R(m) - z3.Q(1, 2)) *
                            (R(c.t) / R(m) - z3.Q(1, 2)) for c in cs),
                           z3.RealVal(0))
      want1 = ig(z3.Q(3, 2), chi / 2)
      tot = sum((R(c.t) for c in cnt), z3.RealVal(0))
      prob = [_real(x) for x in (0.2148, 0.3672, 0.2305, 0.1875)]
      chi2 = sum(((R(c.t) - tot * pr_) * (R(c.t) - tot * pr_) / (tot * pr_)
                  for c, pr_ in zip(cnt, prob)), z3.RealVal(0))
      want2 = ig(z3.Q(3, 2), chi2 / 2)
      q = _real(1. / 4)
      chi3 = sum(((R(c.t) - tot * q) * (R(c.t) - tot * q) / (tot * q)
                  for c in cnt), z3.RealVal(0))
      want3 = ig(z3.Q(3, 2), chi3 / 2)
      p1, p2, p3 = p.value
      _prove(rec, e, T(p1) == want1, 'BlockFrequencyImpl', cexs,
             'BlockFrequencyImpl')
      _prove(rec, e, T(p2) == want2, 'ChiSquare', cexs, 'ChiSquare')
      _prove(rec, e, T(p3) == want3, 'ChiSquareUniform', cexs,
             'ChiSquareUniform')
      done += 1
  finally:
    pysym._to_sreal = orig
  rec.sample(dict(fn='Frequency/Runs/BlockFrequencyImpl/ChiSquare',
                  verdicts=done))
  rec.reach(2, min(done, 2))
  for tag, cex in cexs[:3]:
    rec.replayed()
    bad = replay_formula(tag)
    rec.violation('nist_suite.' + tag.split(' ')[0], 'formula',
                  'p-value term differs from the SP 800-22 formula', cex,
                  dict(module='harness.props.c12', function='replay_formula',
                       args=dict(tag=tag.split(' ')[0])), bad)


def replay_formula(tag):
  """Concrete spot check of the formulas with the real special functions."""
  import math  # pylint: disable=g-import-not-at-top
  import random  # pylint: disable=g-import-not-at-top
  ns, util, bm, ext = _mods()
  rng = random.Random(3)
  bad = False
  for _ in range(200):
    n = rng.randint(8, 400)
    bits = rng.getrandbits(n)
    ones = bin(bits).count('1')
    try:
      if tag in ('Frequency', 'raises'):
        want = math.erfc(abs(2 * ones - n) / math.sqrt(n) / math.sqrt(2))
        if abs(ns.Frequency(bits, n) - want) > 1e-9:
          bad = True
      if tag in ('Runs', 'raises') and 0 < ones < n:
        runs = 1 + sum(((bits >> i) ^ (bits >> (i + 1))) & 1
                       for i in range(n - 1))
        pi = ones / n
        want = math.erfc(abs(runs - 2 * n * pi * (1 - pi)) /
                         (2 * math.sqrt(2 * n) * pi * (1 - pi)))
        if abs(ns.Runs(bits, n) - want) > 1e-9:
          bad = True
      if tag in ('BlockFrequencyImpl', 'ChiSquare', 'ChiSquareUniform',
                 'raises'):
        m = rng.randint(4, 30)
        blocks = [rng.getrandbits(m) for _ in range(5)]
        chi = 4 * m * sum((bin(b).count('1') / m - .5)**2 for b in blocks)
        if abs(ns.BlockFrequencyImpl(blocks, m) - util.Igamc(2.5, chi / 2)
              ) > 1e-9:
          bad = True
        cnt = [rng.randint(1, 50) for _ in range(4)]
        prob = [0.2148, 0.3672, 0.2305, 0.1875]
        tot = sum(cnt)
        c2 = sum((c - tot * p)**2 / (tot * p) for c, p in zip(cnt, prob))
        if abs(ns.ChiSquare(cnt, prob, 3) - util.Igamc(1.5, c2 / 2)) > 1e-9:
          bad = True
        c3 = sum((c - tot / 4)**2 / (tot / 4) for c in cnt)
        if abs(ns.ChiSquareUniform(cnt) - util.Igamc(1.5, c3 / 2)) > 1e-9:
          bad = True
    except Exception as ex:  # pylint: disable=broad-except
      print('raised', repr(ex))
      return True
  return bad


# ---------------------------------------------------------------------------
# thresholds and parameter ladders (symbolic n)


class _Stop(Exception):

  def __init__(self, what, args):
    super().__init__(what)
    self.what = what
    self.args_ = args


def thresholds(rec, seed):
  ns, util, bm, ext = _mods()
  rec.functions(
      'paranoid_crypto.lib.randomness_tests.nist_suite:BlockFrequency',
      'paranoid_crypto.lib.randomness_tests.nist_suite:LongestRuns',
      'paranoid_crypto.lib.randomness_tests.nist_suite:BinaryMatrixRank',
      'paranoid_crypto.lib.randomness_tests.nist_suite:Universal',
      'paranoid_crypto.lib.randomness_tests.nist_suite:LinearComplexity',
      'paranoid_crypto.lib.randomness_tests.nist_suite:'
      'NonOverlappingTemplateMatching',
      'paranoid_crypto.lib.randomness_tests.extended_nist_suite:'
      'LargeBinaryMatrixRank')
  rec.bounds('every length n in [0, 2^31) (symbolic); downstream work is '
             'cut at the first SplitSequence / Impl call, whose arguments are '
             'compared with the documented minimum sizes and parameter rules')
  cexs = []
  done = 0

  def split_stub(bits, n, m):
    raise _Stop('split', (n, m))

  def make_run(fn):

    def run(e):
      n = ivar(e, 'n', lo=0, hi=2**31)
      e.notes['n'] = n
      try:
        with stubs.patched(util, SplitSequence=split_stub):
          fn(n)
      except _Stop as s:
        return ('split',) + tuple(s.args_)
      except ns.InsufficientDataError:
        return ('insufficient',)
      return ('other',)

    return run

  U = {6: 387840, 7: 904960, 8: 2068480, 9: 4654080, 10: 10342400,
       11: 22753280, 12: 49643520, 13: 107560960, 14: 231669760,
       15: 496435200, 16: 1059061760}

  def univ_stub(bits, n, block_size, q):
    raise _Stop('univ', (n, block_size, q))

  cases = []
  # BlockFrequency: insufficient <=> n < 100; else m >= 20, n//m < 100,
  # m the smallest admissible power of two (or 20)
  cases.append(('BlockFrequency', lambda n: ns.BlockFrequency(0, n),
                lambda n: n < 100,
                lambda n, a: z3.And(
                    T(a[0]) == n, T(a[1]) >= 20,
                    n / T(a[1]) < 100,
                    z3.Or(T(a[1]) == 20, z3.And(T(a[1]) >= 32,
                                                n / (T(a[1]) / 2) >= 100)))))
  cases.append(('LongestRuns', lambda n: ns.LongestRuns(0, n),
                lambda n: n < 128,
                lambda n, a: z3.And(
                    T(a[0]) == n,
                    T(a[1]) == z3.If(n >= 750000, 10000,
                                     z3.If(n >= 6272, 128, 8)))))
  cases.append(('BinaryMatrixRank', lambda n: ns.BinaryMatrixRank(0, n),
                lambda n: n < 38 * 32 * 32,
                lambda n, a: z3.And(T(a[0]) == n, T(a[1]) == 32)))
  cases.append(('LinearComplexity500',
                lambda n: ns.LinearComplexity(0, n, 500),
                lambda n: n < 200 * 500,
                lambda n, a: z3.And(T(a[0]) == n, T(a[1]) == 500)))
  cases.append(('LinearComplexity9',
                lambda n: ns.LinearComplexity(0, n, 9),
                lambda n: z3.BoolVal(True), None))
  cases.append(('NonOverlapping',
                lambda n: ns.NonOverlappingTemplateMatching(0, n),
                lambda n: n / 8 < 4,
                lambda n, a: z3.And(T(a[0]) == n, T(a[1]) == n / 8)))
  # template length chosen from the block size (the ladder of the pinned
  # implementation; NIST gives no rule): observed at the first call that
  # enumerates the templates
  def tmpl_stub(b, m):
    raise _Stop('split', ('m', m))

  def nonoverlapping_m(n):
    with stubs.patched(ns, IsNonOverlappingTemplate=tmpl_stub):
      return ns.NonOverlappingTemplateMatching(0, n)

  def ladder(n, a):
    bs = n / 8
    want = z3.IntVal(10)
    for bound, mm in ((32768, 9), (16384, 8), (8192, 7), (4096, 6), (2048, 5),
                      (1024, 4), (256, 3), (64, 2)):
      want = z3.If(bs < bound, mm, want)
    return T(a[1]) == want

  cases.append(('NonOverlappingTemplateLength', nonoverlapping_m,
                lambda n: n / 8 < 4, ladder))
  for name, fn, insuff, split_ok in cases:
    for p in pysym.explore(make_run(fn), max_paths=400):
      e = p.eng
      rec.path(p.kind)
      if p.kind != 'return':
        r, m = e.feasible()
        if r == 'sat':
          cexs.append((name, 'raises %r' % (p.value,), inputs_of(e, m)))
        continue
      n = e.notes['n'].t
      out = p.value
      if out[0] == 'insufficient':
        _prove(rec, e, insuff(n), name + ' threshold', cexs,
               (name, 'insufficient_above_minimum'))
      elif out[0] == 'split':
        g = z3.Not(insuff(n))
        if split_ok is not None:
          g = z3.And(g, split_ok(n, out[1:]))
        _prove(rec, e, g, name + ' parameters', cexs, (name, 'parameters'))
      else:
        rec.inconclusive('%s: downstream not reached' % name)
      done += 1

  # Universal: block size ladder, Q = 10 * 2^L
  def run_u(e):
    n = ivar(e, 'n', lo=0, hi=2**31)
    e.notes['n'] = n
    try:
      with stubs.patched(ns, UniversalImpl=univ_stub):
        ns.Universal(0, n)
    except _Stop as s:
      return ('univ',) + tuple(s.args_)
    except ns.InsufficientDataError:
      return ('insufficient',)
    return ('other',)

  def sym_min(it):
    return stubs.sym_min(list(it))

  with stubs.patched(ns, min=sym_min):
    for p in pysym.explore(run_u, max_paths=400):
      e = p.eng
      rec.path(p.kind)
      if p.kind != 'return':
        r, m = e.feasible()
        if r == 'sat':
          cexs.append(('Universal', 'raises %r' % (p.value,),
                       inputs_of(e, m)))
        continue
      n = e.notes['n'].t
      out = p.value
      if out[0] == 'insufficient':
        _prove(rec, e, n < 387840, 'Universal threshold', cexs,
               ('Universal', 'insufficient_above_minimum'))
      elif out[0] == 'univ':
        L = out[2]
        # NIST table: L is the largest block size whose minimum is <= n ...
        # the code takes the smallest admissible one (documented deviation:
        # docs mention none) - we assert admissibility and Q = 10 * 2^L
        g = z3.And(n >= 387840, T(out[1]) == n)
        if isinstance(L, int):
          g = z3.And(g, z3.BoolVal(L in U), n >= U.get(L, 0),
                     T(out[3]) == 10 * 2**L)
        else:
          g = z3.BoolVal(False)
        _prove(rec, e, g, 'Universal parameters', cexs,
               ('Universal', 'parameters'))
      done += 1

  # LargeBinaryMatrixRank: insufficient below the smallest matrix
  def run_l(e):
    n = ivar(e, 'n', lo=0, hi=2**20)
    e.notes['n'] = n
    try:
      with stubs.patched(util, SplitSequence=split_stub):
        ext.LargeBinaryMatrixRank(0, n)
    except _Stop as s:
      return ('split',) + tuple(s.args_)
    except ns.InsufficientDataError:
      return ('insufficient',)
    return ('other',)

  sizes = []
  for p in pysym.explore(run_l, max_paths=400):
    e = p.eng
    rec.path(p.kind)
    if p.kind != 'return':
      continue
    n = e.notes['n'].t
    out = p.value
    if out[0] == 'split':
      # the first matrix tried must fit: size*size <= n
      sz = out[2]
      _prove(rec, e, T(sz) * T(sz) <= n, 'LargeBinaryMatrixRank size', cexs,
             ('LargeBinaryMatrixRank', 'matrix_larger_than_input'))
    done += 1
  rec.sample(dict(fn='thresholds', cases=done))
  rec.reach(1, 1 if done else 0)
  seen = set()
  for name, tag, cex in [(c[0][0], c[0][1], c[1]) if isinstance(c[0], tuple)
                         else (c[0], c[1], c[2]) for c in cexs]:
    if (name, tag) in seen:
      continue
    seen.add((name, tag))
    n = cex.get('n', 0)
    bad = replay_threshold(name, n)
    rec.replayed()
    rec.violation('nist_suite.' + name, 'threshold',
                  '%s: %s at n = %d' % (name, tag, n), dict(n=n),
                  dict(module='harness.props.c12', function='replay_threshold',
                       args=dict(name=name, n=n)), bad)


class _MathCeil(_Math):
  """ceil of a symbolic real: decided value by value (the loop bounds of the
  series become concrete on each path)."""

  @staticmethod
  def ceil(x):
    if not pysym.is_sym(x):
      import math  # pylint: disable=g-import-not-at-top
      return math.ceil(x)
    xr = _real(x)
    fl = z3.ToInt(xr)
    c = z3.If(z3.ToReal(fl) == xr, fl, fl + 1)
    return pysym.eng().concretize(c, 'ceil')


def cusum_pvalue(rec, seed, zs, ratio):
  """CumulativeSumsPValue(n, z) equals the series of SP 800-22 section 2.13
  (both sums with their exact limits) term by term, erf uninterpreted."""
  ns, util, bm, ext = _mods()
  rec.functions('paranoid_crypto.lib.randomness_tests.nist_suite:'
                'CumulativeSumsPValue')
  rec.bounds('z in %r, every n with z <= n <= %d*z (symbolic); erf and sqrt '
             'uninterpreted; the result is compared with the series '
             '1 - sum_{k=ceil((-n/z+1)/4)}^{floor((n/z-1)/4)} [Phi((4k+1)z/'
             'sqrt n) - Phi((4k-1)z/sqrt n)] + sum_{k=ceil((-n/z-3)/4)}^{floor'
             '((n/z-1)/4)} [Phi((4k+3)z/sqrt n) - Phi((4k+1)z/sqrt n)]' %
             (zs, ratio))
  cexs = []
  done = 0
  K = ratio // 4 + 2
  orig = _float_ops()
  try:
    for z in zs:

      def run(e, z=z):
        n = ivar(e, 'n', lo=z, hi=ratio * z + 1)
        e.notes['n'] = n
        with stubs.patched(ns, math=_MathCeil):
          got = ns.CumulativeSumsPValue(n, z)
          t = z / _MathCeil.sqrt(2 * n)
          x_lo1 = (-n / z + 1) / 4
          x_lo2 = (-n / z - 3) / 4
          x_hi = (n / z - 1) / 4
          lo1, lo2, hi = (e.fresh('lo1'), e.fresh('lo2'), e.fresh('hi'))
          e.assume(z3.And(
              z3.ToReal(lo1) >= _real(x_lo1), z3.ToReal(lo1) - 1 < _real(x_lo1),
              z3.ToReal(lo2) >= _real(x_lo2), z3.ToReal(lo2) - 1 < _real(x_lo2),
              z3.ToReal(hi) <= _real(x_hi), z3.ToReal(hi) + 1 > _real(x_hi)))
          acc = z3.RealVal(0)
          for k in range(-K - 1, K + 1):
            t1 = _real(_MathCeil.erf((4 * k - 1) * t))
            t2 = _real(_MathCeil.erf((4 * k + 1) * t))
            t3 = _real(_MathCeil.erf((4 * k + 3) * t))
            acc = acc + z3.If(z3.And(lo1 <= k, k <= hi), t1 - t2, 0)
            acc = acc + z3.If(z3.And(lo2 <= k, k <= hi), t3 - t2, 0)
          e.notes['ref'] = 1 + acc / 2
          e.notes['range_ok'] = z3.And(lo1 >= -K - 1, lo2 >= -K - 1, hi <= K)
        return got

      for p in pysym.explore(run, max_paths=400):
        e = p.eng
        rec.path(p.kind)
        if p.kind == 'abort':
          rec.inconclusive('path aborted: %s' % p.value)
          continue
        if p.kind != 'return':
          r, m = e.feasible()
          if r == 'sat':
            cexs.append((z, inputs_of(e, m)))
          continue
        _prove(rec, e, z3.And(e.notes['range_ok'],
                              _real(p.value) == e.notes['ref']),
               'cusum series z=%d' % z, cexs, z)
        done += 1
  finally:
    pysym._to_sreal = orig
  rec.sample(dict(fn='CumulativeSumsPValue', zs=zs, ratio=ratio, paths=done))
  rec.reach(1, 1 if done else 0)
  for z, cex in cexs[:3]:
    n = cex.get('n', z)
    bad = replay_cusum_p(n, z)
    rec.replayed()
    rec.violation('nist_suite.CumulativeSumsPValue', 'series',
                  'p-value differs from the section 2.13 series at n=%d, z=%d'
                  % (n, z), dict(n=n, z=z),
                  dict(module='harness.props.c12', function='replay_cusum_p',
                       args=dict(n=n, z=z)), bad)


def replay_cusum_p(n, z):
  import math  # pylint: disable=g-import-not-at-top
  ns, util, bm, ext = _mods()
  n, z = int(n), int(z)
  bad = False
  # the counterexample and the neighbouring lengths with the same ratio class
  for nn in sorted({n, 5 * z, 9 * z, 13 * z, n + 1, max(z, n - 1)}):
    phi = lambda x: 0.5 * (1 + math.erf(x / math.sqrt(2)))
    s1 = sum(phi((4 * k + 1) * z / math.sqrt(nn)) - phi(
        (4 * k - 1) * z / math.sqrt(nn))
             for k in range(math.ceil((-nn / z + 1) / 4),
                            math.floor((nn / z - 1) / 4) + 1))
    s2 = sum(phi((4 * k + 3) * z / math.sqrt(nn)) - phi(
        (4 * k + 1) * z / math.sqrt(nn))
             for k in range(math.ceil((-nn / z - 3) / 4),
                            math.floor((nn / z - 1) / 4) + 1))
    want = 1 - s1 + s2
    got = ns.CumulativeSumsPValue(nn, z)
    if abs(got - want) > 1e-9:
      print('CumulativeSumsPValue(%d, %d) = %r, series %r' % (nn, z, got,
                                                              want))
      bad = True
  if not bad:
    print('matches the series')
  return bad


def replay_threshold(name, n):
  ns, util, bm, ext = _mods()
  n = int(n)
  if name == 'NonOverlappingTemplateLength':
    if n > 3 * 10**6:
      print('n too large to replay concretely')
      return False
    bs = n // 8
    want = 10
    for bound, mm in ((32768, 9), (16384, 8), (8192, 7), (4096, 6), (2048, 5),
                      (1024, 4), (256, 3), (64, 2)):
      if bs < bound:
        want = mm
    try:
      res = ns.NonOverlappingTemplateMatching((1 << n) // 3, n)
    except ns.InsufficientDataError:
      print('InsufficientDataError at n =', n)
      return bs >= 4
    lens = {len(nm.split("'")[1]) for nm, _ in res}
    print('n = %d (block size %d): template lengths %r, ladder %d' %
          (n, bs, sorted(lens), want))
    return lens != {want}
  fn = {
      'BlockFrequency': lambda: ns.BlockFrequency((1 << n) // 3, n),
      'LongestRuns': lambda: ns.LongestRuns((1 << n) // 3, n),
      'BinaryMatrixRank': lambda: ns.BinaryMatrixRank((1 << n) // 3, n),
      'LinearComplexity500': lambda: ns.LinearComplexity((1 << n) // 3, n,
                                                         500),
      'LinearComplexity9': lambda: ns.LinearComplexity((1 << n) // 3, n, 9),
      'NonOverlapping': lambda: ns.NonOverlappingTemplateMatching(
          (1 << n) // 3, n),
      'Universal': lambda: ns.Universal((1 << n) // 3, n),
      'LargeBinaryMatrixRank': lambda: ext.LargeBinaryMatrixRank(
          (1 << n) // 3, n),
  }[name]
  minimum = {'BlockFrequency': 100, 'LongestRuns': 128,
             'BinaryMatrixRank': 38 * 1024, 'LinearComplexity500': 100000,
             'LinearComplexity9': None, 'NonOverlapping': 32,
             'Universal': 387840, 'LargeBinaryMatrixRank': 64 * 64}[name]
  if n > 3 * 10**6:
    print('n too large to replay concretely')
    return False
  if name in ('BlockFrequency', 'LongestRuns') and n >= minimum:
    # parameter rule: observe the block size handed to SplitSequence
    seen = []
    orig_split = util.SplitSequence

    def spy(bits, nn, m_):
      seen.append(m_)
      return orig_split(bits, nn, m_)

    util.SplitSequence = spy
    try:
      fn()
    except ns.InsufficientDataError:
      print(name, 'n =', n, 'InsufficientDataError above the minimum')
      return True
    finally:
      util.SplitSequence = orig_split
    if not seen:
      return True
    m_ = seen[0]
    if name == 'BlockFrequency':
      ok = m_ >= 20 and n // m_ < 100 and (
          m_ == 20 or (m_ >= 32 and n // (m_ // 2) >= 100))
    else:
      ok = m_ == (10000 if n >= 750000 else 128 if n >= 6272 else 8)
    print(name, 'n =', n, 'block size', m_, 'rule holds' if ok else
          'rule violated')
    return not ok
  try:
    fn()
    raised = False
  except ns.InsufficientDataError:
    raised = True
  except Exception as ex:  # pylint: disable=broad-except
    print(name, n, 'raised', repr(ex))
    return True
  print(name, 'n =', n, 'InsufficientDataError' if raised else 'ran',
        'documented minimum', minimum)
  if minimum is None:
    return not raised
  return raised != (n < minimum)


# ---------------------------------------------------------------------------
# LinearComplexityImpl bucket arithmetic, UniversalImpl distances, templates


def linear_complexity_buckets(rec, seed, ms):
  ns, util, bm, ext = _mods()
  rec.functions(
      'paranoid_crypto.lib.randomness_tests.nist_suite:LinearComplexityImpl')
  rec.bounds('block sizes m in %s, every linear complexity 0 <= L <= m of a '
             'single block (symbolic): the category the block is counted in '
             'carries the probability that SP 800-22 3.10 assigns to '
             'T = (-1)^m (L - mu) + 2/9' % (ms,))
  cexs = []
  done = 0
  orig = _float_ops()
  try:
    for m in ms:

      def run(e, m=m):
        L = ivar(e, 'L', lo=0, hi=m + 1)
        e.notes['L'] = L
        got = {}

        def chi(v, pi, k):
          got['v'], got['pi'], got['k'] = list(v), list(pi), k
          return SReal(e.fresh('p', 'real'))

        class BM:
          LinearComplexity = staticmethod(lambda b, mm: L)
          LfsrLogProbability = staticmethod(lambda mm, c: 0)

        with stubs.patched(ns, berlekamp_massey=BM, ChiSquare=chi), \
            stubs.patched(util, BinomialCdf=lambda a, b: 0.5):
          ns.LinearComplexityImpl([0], m)
        return got

      for p in pysym.explore(run, max_paths=50):
        e = p.eng
        rec.path(p.kind)
        if p.kind != 'return':
          r, mdl = e.feasible()
          if r == 'sat':
            cexs.append((m, inputs_of(e, mdl)))
          continue
        got = p.value
        L = e.notes['L'].t
        v, pi = got['v'], got['pi']
        idx = [i for i, x in enumerate(v) if not (isinstance(x, int) and
                                                  x == 0)]
        if len(idx) != 1 or got['k'] != 6 or len(pi) != 7:
          cexs.append((m, {'L': -1}))
          continue
        code_prob = fractions.Fraction(pi[idx[0]]).limit_denominator(1000)
        # SP 800-22: mu = m/2 + (9 + (-1)^(m+1))/36 - (m/3 + 2/9)/2^m
        F = fractions.Fraction
        mu = F(m, 2) + F(9 + (-1)**(m + 1), 36) - (F(m, 3) + F(2, 9)) / 2**m
        sign = (-1)**m
        Tq = lambda: None
        R = z3.ToReal
        Tn = sign * (R(L) - z3.Q(mu.numerator, mu.denominator)) + z3.Q(2, 9)
        nist_pi = [F(1, 96), F(1, 32), F(1, 8), F(1, 2), F(1, 4), F(1, 16),
                   F(1, 48)]
        bounds = [F(-5, 2), F(-3, 2), F(-1, 2), F(1, 2), F(3, 2), F(5, 2)]
        want = z3.RealVal(0)
        # probability of the NIST category of T
        expr = z3.Q(nist_pi[6].numerator, nist_pi[6].denominator)
        for bi in range(5, -1, -1):
          b_ = bounds[bi]
          expr = z3.If(Tn <= z3.Q(b_.numerator, b_.denominator),
                       z3.Q(nist_pi[bi].numerator, nist_pi[bi].denominator),
                       expr)
        goal = expr == z3.Q(code_prob.numerator, code_prob.denominator)
        r, mdl, _ = e.prove(goal)
        if r == 'proved':
          rec.obligation('proved')
        elif r == 'unknown':
          rec.obligation('unknown', 'LinearComplexity buckets')
        else:
          cexs.append((m, inputs_of(e, mdl)))
        done += 1
  finally:
    pysym._to_sreal = orig
  rec.sample(dict(fn='LinearComplexityImpl', block_sizes=ms, verdicts=done))
  rec.reach(1, 1 if done else 0)
  for m, cex in cexs[:3]:
    bad = replay_lc(m, cex.get('L', 0))
    rec.replayed()
    rec.violation('nist_suite.LinearComplexityImpl', 'category',
                  'block of size %d with linear complexity %s is counted in '
                  'the wrong category' % (m, cex.get('L')),
                  dict(m=m, L=cex.get('L')),
                  dict(module='harness.props.c12', function='replay_lc',
                       args=dict(m=m, L=cex.get('L', 0))), bad)


def replay_lc(m, L):
  """Concrete: a block with linear complexity L is fed through the real
  function with ChiSquare recording the histogram."""
  ns, util, bm, ext = _mods()
  from fractions import Fraction as F  # pylint: disable=g-import-not-at-top
  m, L = int(m), int(L)
  got = {}
  orig_chi, orig_bm = ns.ChiSquare, ns.berlekamp_massey

  class BM:
    LinearComplexity = staticmethod(lambda b, mm: L)
    LfsrLogProbability = staticmethod(lambda mm, c: -1.0)

  ns.ChiSquare = lambda v, pi, k: got.update(v=list(v), pi=list(pi)) or 0.5
  ns.berlekamp_massey = BM
  try:
    ns.LinearComplexityImpl([0], m)
  except Exception as ex:  # pylint: disable=broad-except
    print('raised', repr(ex))
    return True
  finally:
    ns.ChiSquare, ns.berlekamp_massey = orig_chi, orig_bm
  idx = got['v'].index(1)
  code_prob = F(got['pi'][idx]).limit_denominator(1000)
  mu = F(m, 2) + F(9 + (-1)**(m + 1), 36) - (F(m, 3) + F(2, 9)) / 2**m
  Tn = (-1)**m * (L - mu) + F(2, 9)
  nist_pi = [F(1, 96), F(1, 32), F(1, 8), F(1, 2), F(1, 4), F(1, 16),
             F(1, 48)]
  bi = sum(Tn > b for b in [F(-5, 2), F(-3, 2), F(-1, 2), F(1, 2), F(3, 2),
                            F(5, 2)])
  print('m=%d L=%d: counted with probability %s, SP 800-22 category '
        'probability %s' % (m, L, code_prob, nist_pi[bi]))
  return code_prob != nist_pi[bi]


def universal_distances(rec, seed, L, q, k):
  ns, util, bm, ext = _mods()
  rec.functions('paranoid_crypto.lib.randomness_tests.nist_suite:UniversalImpl')
  rec.bounds('block size L = %d, Q = %d initial and K = %d test blocks, every '
             'block sequence (symbolic): the distances fed to log2 equal the '
             'SP 800-22 2.9.4 definition (1-based table, 0 = never seen)' %
             (L, q, k))
  cexs = []
  done = 0
  orig = _float_ops()
  try:

    def run(e):
      blocks = [ivar(e, 'blk%d' % i, lo=0, hi=2**L) for i in range(q + k)]
      e.notes['blocks'] = blocks
      dists = []

      class M(_Math):

        @staticmethod
        def log(x, base=None):
          dists.append(x)
          return _uf_call('log2', x)

      with stubs.patched(util, SplitSequence=lambda b, n, m: list(blocks)), \
          stubs.patched(ns, math=M,
                        UniversalDistribution=lambda bs, kk: (1.0, 1.0)):
        ns.UniversalImpl(0, L * (q + k), L, q)
      return dists

    for p in pysym.explore(run, max_paths=20000):
      e = p.eng
      rec.path(p.kind)
      if p.kind != 'return':
        r, mdl = e.feasible()
        if r == 'sat':
          cexs.append(inputs_of(e, mdl))
        continue
      blocks = [b.t for b in e.notes['blocks']]
      dists = p.value
      goal = z3.BoolVal(len(dists) == k)
      for t, j in enumerate(range(q, q + k)):
        if t >= len(dists):
          break
        # definition: j+1 (1-based) minus last 1-based position with the
        # same block, 0 if none
        last = z3.IntVal(0)
        for i in range(j):
          last = z3.If(blocks[i] == blocks[j], z3.IntVal(i + 1), last)
        goal = z3.And(goal, T(dists[t]) == (j + 1) - last)
      r, mdl, _ = e.prove(goal)
      if r == 'proved':
        rec.obligation('proved')
      elif r == 'unknown':
        rec.obligation('unknown', 'Universal distances')
      else:
        cexs.append(inputs_of(e, mdl))
      done += 1
  finally:
    pysym._to_sreal = orig
  rec.sample(dict(fn='UniversalImpl', L=L, Q=q, K=k, paths=done))
  rec.reach(1, 1 if done else 0)
  for cex in cexs[:2]:
    blocks = [cex['blk%d' % i] for i in range(q + k)]
    bad = replay_universal(L, q, blocks)
    rec.replayed()
    rec.violation('nist_suite.UniversalImpl', 'distance',
                  'log2 argument differs from the distance to the previous '
                  'occurrence', dict(L=L, Q=q, blocks=blocks),
                  dict(module='harness.props.c12', function='replay_universal',
                       args=dict(L=L, q=q, blocks=blocks)), bad)


def replay_universal(L, q, blocks):
  import math  # pylint: disable=g-import-not-at-top
  ns, util, bm, ext = _mods()
  L, q = int(L), int(q)
  blocks = [int(b) for b in blocks]
  bits = sum(b << (L * i) for i, b in enumerate(blocks))
  n = L * len(blocks)
  k = len(blocks) - q
  mean, std = 1.0, 1.0
  orig = ns.UniversalDistribution
  ns.UniversalDistribution = lambda bs, kk: (mean, std)
  try:
    got = ns.UniversalImpl(bits, n, L, q)
  except Exception as ex:  # pylint: disable=broad-except
    print('raised', repr(ex))
    return True
  finally:
    ns.UniversalDistribution = orig
  tab = {}
  for i in range(q):
    tab[blocks[i]] = i + 1
  s = 0.0
  for j in range(q, q + k):
    s += math.log((j + 1) - tab.get(blocks[j], 0), 2)
    tab[blocks[j]] = j + 1
  want = math.erfc(abs(s / k - mean) / std / math.sqrt(2))
  print('UniversalImpl blocks %r -> %r, reference %r' % (blocks, got, want))
  return abs(got - want) > 1e-12


def templates(rec, seed, mmax):
  ns, util, bm, ext = _mods()
  rec.functions('paranoid_crypto.lib.randomness_tests.nist_suite:'
                'IsNonOverlappingTemplate')
  rec.bounds('every template of length m <= %d (symbolic bit-vector)' % mmax)
  cexs = []
  done = 0
  for m in range(1, mmax + 1):
    W = m + 3

    def run(e, m=m):
      t = bvar(e, 't', W, lo=0, hi=2**m)
      e.notes['t'] = t
      return ns.IsNonOverlappingTemplate(t, m)

    for p in pysym.explore(run, max_paths=2000):
      e = p.eng
      rec.path(p.kind)
      if p.kind != 'return':
        continue
      t = e.notes['t'].t
      # definition: no i in 1..m-1 with the top i bits equal to the low i bits
      overlaps = []
      for i in range(1, m):
        overlaps.append(z3.Extract(m - 1, m - i, t) == z3.Extract(i - 1, 0, t))
      want = z3.Not(z3.Or(overlaps)) if overlaps else z3.BoolVal(True)
      r, mdl, _ = e.prove(pysym.sbool(p.value) == want)
      if r == 'proved':
        rec.obligation('proved')
      elif r == 'unknown':
        rec.obligation('unknown', 'IsNonOverlappingTemplate')
      else:
        cexs.append((m, inputs_of(e, mdl)))
      done += 1
  rec.sample(dict(fn='IsNonOverlappingTemplate', mmax=mmax, paths=done))
  rec.reach(1, 1 if done else 0)
  for m, cex in cexs[:2]:
    t = cex['t']
    got = ns.IsNonOverlappingTemplate(t, m)
    want = not any((t >> (m - i)) == (t & ((1 << i) - 1)) for i in range(1, m))
    rec.replayed()
    rec.violation('nist_suite.IsNonOverlappingTemplate', 'definition',
                  'template %s of length %d misclassified' % (bin(t), m),
                  dict(t=t, m=m), dict(module='harness.props.c12',
                                       function='replay_template',
                                       args=dict(t=t, m=m)), got != want)


def replay_template(t, m):
  ns, util, bm, ext = _mods()
  t, m = int(t), int(m)
  got = ns.IsNonOverlappingTemplate(t, m)
  s = format(t, '0%db' % m)
  want = not any(s[:i] == s[m - i:] for i in range(1, m))
  print('IsNonOverlappingTemplate(%s) = %r, definition %r' % (s, got, want))
  return got != want


def jobs(tier, seed):
  thorough = tier == 'thorough'
  out = [Job('cusum_pvalue', cusum_pvalue,
             dict(zs=[1, 2, 3, 7] if not thorough else [1, 2, 3, 4, 5, 7, 11,
                                                        64],
                  ratio=14 if not thorough else 30), timeout=1800, cost=40)]
  for n in ([1, 2, 3, 4, 5, 6, 7, 8, 9] if not thorough else list(
      range(1, 14))):
    out.append(Job('random_walk_n%d' % n, random_walk, dict(n=n),
                   timeout=3000, cost=2**n))
  out.append(Job('formulas', formulas, {}, timeout=600, cost=5))
  out.append(Job('thresholds', thresholds, {}, timeout=1200, cost=20))
  ms = [10, 11, 12, 13, 500, 501, 1000, 1001] if not thorough else (
      list(range(10, 40)) + [500, 501, 512, 1000, 1001, 4095, 4096])
  out.append(Job('linear_complexity_buckets', linear_complexity_buckets,
                 dict(ms=ms), timeout=1200, cost=10))
  out.append(Job('universal_L1', universal_distances, dict(L=1, q=2, k=4),
                 timeout=1200, cost=8))
  out.append(Job('universal_L2', universal_distances,
                 dict(L=2, q=2 if not thorough else 3, k=3), timeout=3000,
                 cost=30))
  out.append(Job('templates', templates, dict(mmax=8 if not thorough else 10),
                 timeout=1200, cost=10))
  return out
