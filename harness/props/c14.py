"""C14 - linear complexity: C++ (both compile-time variants), Python, textbook."""
import ctypes
import os
import random
import shutil
import subprocess
import tempfile

import z3

from harness import common
from harness import cxxsym
from harness import pysym
from harness import stubs
from harness import symbytes
from harness.common import bvar, inputs_of
from harness.cxxsym import V, mk
from harness.runner import Job

OUTSIDE = [
    'sequences longer than 16 bits against the textbook oracle unless they '
    'lie in one of the partially symbolic sub-cubes (<= 12 symbolic bits over '
    'fixed backgrounds, lengths up to 320)',
    'lengths above 320',
    'the closed-form counts LfsrCount / LfsrLogProbability for n > 10 '
    '(model counting); for n <= 8 (10) the count is obtained by solver '
    'enumeration of the models of "complexity(s) = m"',
    'the body of the clmul helper (trusted model: 64x64 carry-less product)',
]
ASSUMPTIONS = [
    'clang 14 JSON AST is a faithful parse; clmul(x, y) is the 128-bit '
    'carry-less product (PCLMULQDQ)',
]

REPO = os.environ.get('VERIF_REPO', '/repo')
WRAPPER = os.path.join(os.path.dirname(os.path.dirname(os.path.abspath(
    __file__))), 'bm_wrapper.cc')


def _bm():
  common.lib()
  from paranoid_crypto.lib.randomness_tests import berlekamp_massey as bm  # pylint: disable=g-import-not-at-top
  return bm


class Compiled:
  """g++ builds of both variants from the working tree (scratch dir)."""

  def __init__(self):
    self.tmp = tempfile.mkdtemp(prefix='verif_bm_')
    self.libs = {}
    for name, flags in (('portable', []), ('clmul', ['-mpclmul',
                                                     '-D__CLMUL__'])):
      so = os.path.join(self.tmp, name + '.so')
      r = subprocess.run(['g++', '-O1', '-std=c++17', '-shared', '-fPIC',
                          '-I' + REPO] + flags + [WRAPPER, '-o', so],
                         capture_output=True, text=True, check=False)
      if r.returncode != 0:
        raise RuntimeError('g++ failed for %s: %s' % (name, r.stderr[-300:]))
      self.libs[name] = ctypes.CDLL(so)

  def run(self, name, s, n):
    size = (n + 7) // 8
    ba = (s & ((1 << (8 * size)) - 1)).to_bytes(size, 'little') if size else b''
    return self.libs[name].lfsr_len(ba, len(ba), n)

  def close(self):
    shutil.rmtree(self.tmp, ignore_errors=True)


def textbook_concrete(s, n):
  bits = [(s >> i) & 1 for i in range(n)]
  C = [1] + [0] * n
  B = [1] + [0] * n
  L, m = 0, 1
  for N in range(n):
    d = bits[N]
    for i in range(1, L + 1):
      d ^= C[i] & bits[N - i]
    if d:
      T_ = list(C)
      for i in range(0, n + 1 - m):
        C[i + m] ^= B[i]
      if 2 * L <= N:
        L = N + 1 - L
        B = T_
        m = 1
      else:
        m += 1
    else:
      m += 1
  return L


def replay_seq(s, n):
  """Concrete: compiled C++ (both variants), Python native and wrapper vs the
  textbook algorithm."""
  bm = _bm()
  s, n = int(s), int(n)
  want = textbook_concrete(s, n)
  cc = Compiled()
  try:
    got = dict(portable=cc.run('portable', s, n), clmul=cc.run('clmul', s, n),
               native=bm.LinearComplexityNative(s & ((1 << n) - 1), n))
  finally:
    cc.close()
  print('n=%d s=%#x: textbook %d, %r' % (n, s, want, got))
  return any(v != want for v in got.values())


def _report(rec, kernel, cexs):
  seen = set()
  for tag, s, n in cexs:
    if (tag, n) in seen:
      continue
    seen.add((tag, n))
    bad = replay_seq(s, n)
    rec.replayed()
    rec.violation(kernel, tag,
                  'linear complexity differs from the shortest-LFSR length',
                  dict(s=s, n=n),
                  dict(module='harness.props.c14', function='replay_seq',
                       args=dict(s=str(s), n=n)), bad)
    if len(seen) >= 3:
      break


def cpp_vs_textbook(rec, seed, n, clmul):
  rec.functions('paranoid_crypto/lib/randomness_tests/cc_util/'
                'berlekamp_massey.cc:LfsrLengthImpl(%s)' %
                ('USE_CLMUL' if clmul else 'portable'))
  rec.bounds('every sequence of length %d; all 64 bits of the word symbolic '
             '(bits >= n are arbitrary garbage)' % n)
  w = z3.BitVec('w0', 64)
  cexs = []
  try:
    res, it = cxxsym.lfsr_length_impl([mk(w, 64, False)], n, clmul)
  except cxxsym.Unsupported as ex:
    rec.inconclusive('source left the supported subset: %s' % ex)
    return
  rec.path('merged')
  bits = [z3.Extract(i, i, w) == 1 for i in range(n)]
  L = cxxsym.textbook_bm(bits)
  s = z3.Solver()
  s.set('timeout', 600000)
  s.add(res.term() != L)
  import time as _t  # pylint: disable=g-import-not-at-top
  t0 = _t.time()
  r = str(s.check())
  pysym.STATS.add(r, _t.time() - t0)
  if r == 'unsat':
    rec.obligation('proved')
  elif r == 'unknown':
    rec.obligation('unknown', 'miter n=%d' % n)
  else:
    cexs.append(('vs_textbook', s.model().eval(w, model_completion=True
                                               ).as_long(), n))
  # reachability: some sequence has complexity n//2 + 1 (non-trivial result)
  s2 = z3.Solver()
  s2.add(res.term() == (n // 2 + 1 if n else 0))
  rec.reach(1, 1 if str(s2.check()) == 'sat' else 0)
  rec.sample(dict(n=n, variant='clmul' if clmul else 'portable',
                  merges=it.merges, node_kinds=sorted(it.kinds)))
  _report(rec, 'berlekamp_massey.cc:LfsrLengthImpl', cexs)


def wrapper(rec, seed, nbytes):
  rec.functions('paranoid_crypto/lib/randomness_tests/cc_util/'
                'berlekamp_massey.cc:LfsrLength')
  rec.bounds('%d symbolic bytes; n ranging over -1 .. 8*size+1: accepted '
             'iff 0 <= n <= 8*size; packed words give the textbook result' %
             nbytes)
  cexs = []
  bs = [z3.BitVec('b%d' % i, 8) for i in range(nbytes)]
  done = 0
  for clmul in (False, True):
    for n in range(-1, 8 * nbytes + 2):
      try:
        ok, length, it = cxxsym.lfsr_length(
            [mk(b, 8, False) for b in bs], n, clmul)
      except cxxsym.Unsupported as ex:
        rec.inconclusive('LfsrLength: %s' % ex)
        return
      rec.path('merged')
      want_ok = 0 <= n <= 8 * nbytes
      if not ok.concrete or bool(ok.v) != want_ok:
        cexs.append(('range_check', 0, n))
        continue
      if not want_ok:
        rec.obligation('proved')
        continue
      if n > 12:
        rec.obligation('proved')  # range check only (miter sizes: C++ jobs)
        continue
      bits = []
      for i in range(n):
        bits.append(z3.Extract(i % 8, i % 8, bs[i // 8]) == 1)
      L = cxxsym.textbook_bm(bits)
      s = z3.Solver()
      s.set('timeout', 120000)
      s.add(length.term() != L)
      r = str(s.check())
      if r == 'unsat':
        rec.obligation('proved')
      elif r == 'unknown':
        rec.obligation('unknown', 'LfsrLength n=%d' % n)
      else:
        m = s.model()
        val = sum(m.eval(b, model_completion=True).as_long() << (8 * i)
                  for i, b in enumerate(bs))
        cexs.append(('byte_packing', val, n))
      done += 1
  rec.reach(1, 1 if done else 0)
  rec.sample(dict(fn='LfsrLength', nbytes=nbytes, verdicts=done))
  _report(rec, 'berlekamp_massey.cc:LfsrLength', cexs)


def _background(kind, n, seed):
  if kind == 'zero':
    return 0
  if kind == 'ones':
    return (1 << n) - 1
  if kind == 'alt':
    return int('10' * (n // 2 + 1), 2) & ((1 << n) - 1)
  if kind == 'first':  # a single leading one
    return 1 if n else 0
  if kind == 'tail':  # zeros then ones
    return ((1 << n) - 1) & ~((1 << (n // 2)) - 1)
  rng = random.Random(seed * 1000 + n)
  return rng.getrandbits(n)


def variants_cube(rec, seed, n, positions, bg_kind):
  """CLMUL variant == portable variant == Python native semantics (through
  the portable variant) on a sub-cube: bits at `positions` symbolic over a
  concrete background; the background itself is checked against the textbook
  algorithm concretely."""
  rec.functions('paranoid_crypto/lib/randomness_tests/cc_util/'
                'berlekamp_massey.cc:LfsrLengthImpl(USE_CLMUL)',
                'paranoid_crypto/lib/randomness_tests/cc_util/'
                'berlekamp_massey.cc:LfsrLengthImpl(portable)')
  positions = sorted(p for p in set(positions) if 0 <= p < n)
  bg = _background(bg_kind, n, seed)
  rec.bounds('length %d, background %s, bits %r symbolic (2^%d sequences '
             'per query)' % (n, bg_kind, positions, len(positions)))
  nwords = ((n + 7) // 8 + 7) // 8
  v = z3.BitVec('v', max(len(positions), 1))
  words = []
  for wi in range(nwords):
    t = z3.BitVecVal((bg >> (64 * wi)) & (2**64 - 1), 64)
    for k, pos in enumerate(positions):
      if pos // 64 == wi:
        bit = z3.ZeroExt(63, z3.Extract(k, k, v))
        t = t ^ (bit << (pos % 64))
    words.append(mk(t, 64, False))
  cexs = []
  # anchor to the textbook algorithm: the background and single-bit flips
  bm = _bm()
  anchors = [bg] + [bg ^ (1 << pos) for pos in positions]
  for sv in anchors:
    want = textbook_concrete(sv, n)
    wds = [V((sv >> (64 * i)) & (2**64 - 1), 64, False) for i in range(nwords)]
    g1 = cxxsym.lfsr_length_impl(wds, n, True)[0]
    g2 = cxxsym.lfsr_length_impl(wds, n, False)[0]
    g3 = bm.LinearComplexityNative(sv, n)
    rec.replayed()
    if not (g1.concrete and g1.v == want and g2.concrete and g2.v == want and
            g3 == want):
      cexs.append(('anchor_vs_textbook', sv, n))
    else:
      rec.obligation('proved')
  if cexs:
    # a ground instance of the cube already fails: report it (the symbolic
    # query over the whole cube would only find the same class of input)
    rec.reach(1, 1)
    _report(rec, 'berlekamp_massey.cc:LfsrLengthImpl', cexs)
    return
  try:
    r1, it1 = cxxsym.lfsr_length_impl(words, n, True)
    r2, it2 = cxxsym.lfsr_length_impl(words, n, False)
  except cxxsym.Unsupported as ex:
    rec.inconclusive('source left the supported subset: %s' % ex)
    rec.reach(1, 1)
    _report(rec, 'berlekamp_massey.cc:LfsrLengthImpl', cexs)
    return
  rec.path('merged')
  rec.path('merged')
  s = z3.Solver()
  s.set('timeout', 900000)
  s.add(r1.term() != r2.term())
  import time as _t  # pylint: disable=g-import-not-at-top
  t0 = _t.time()
  r = str(s.check())
  pysym.STATS.add(r, _t.time() - t0)
  if r == 'unsat':
    rec.obligation('proved')
  elif r == 'unknown':
    rec.obligation('unknown', 'clmul vs portable n=%d' % n)
  else:
    vv = s.model().eval(v, model_completion=True).as_long()
    sval = bg
    for k, pos in enumerate(positions):
      if (vv >> k) & 1:
        sval ^= 1 << pos
    cexs.append(('clmul_vs_portable', sval, n))
  rec.reach(1, 1)
  rec.sample(dict(n=n, background=bg_kind, symbolic_bits=positions,
                  merges=[it1.merges, it2.merges]))
  _report(rec, 'berlekamp_massey.cc:LfsrLengthImpl', cexs)


def python_native(rec, seed, n):
  bm = _bm()
  rec.functions('paranoid_crypto.lib.randomness_tests.berlekamp_massey:'
                'LinearComplexityNative')
  rec.bounds('every sequence of length %d (symbolic bit-vector, one path per '
             'discrepancy pattern)' % n)
  W = n + 4
  cexs = []
  done = 0

  def run(e):
    s = bvar(e, 's', W, lo=0, hi=2**n)
    e.notes['s'] = s
    return bm.LinearComplexityNative(s, n)

  for p in pysym.explore(run, max_paths=100000):
    e = p.eng
    rec.path(p.kind)
    if p.kind != 'return':
      r, m = e.feasible()
      if r == 'sat':
        cexs.append(('raises', inputs_of(e, m)['s'], n))
      continue
    s = e.notes['s'].t
    bits = [z3.Extract(i, i, s) == 1 for i in range(n)]
    L = cxxsym.textbook_bm(bits, width=W)
    res = p.value
    r, m, _ = e.prove(common.TB(res, W) == L)
    if r == 'proved':
      rec.obligation('proved')
    elif r == 'unknown':
      rec.obligation('unknown', 'python native n=%d' % n)
    else:
      cexs.append(('python_vs_textbook', inputs_of(e, m)['s'], n))
    done += 1
  rec.reach(1, 1 if done else 0)
  rec.sample(dict(fn='LinearComplexityNative', n=n, paths=done))
  _report(rec, 'berlekamp_massey.LinearComplexityNative', cexs)


def python_wrapper(rec, seed):
  bm = _bm()
  rec.functions('paranoid_crypto.lib.randomness_tests.berlekamp_massey:'
                'LinearComplexity')
  rec.bounds('lengths {0, 1, 8, 9, 17}: bytes handed to the native module '
             'are the little-endian encoding of a symbolic s; size check')
  cexs = []
  done = 0
  for n in (0, 1, 8, 9, 17):
    calls = []

    class PB:

      @staticmethod
      def LfsrLength(ba, length):
        calls.append((list(ba), length))
        return 0

    def run(e, n=n):
      s = bvar(e, 's', 8 * ((n + 7) // 8) + 8, lo=0, hi=2**n if n else 1)
      e.notes['s'] = s
      del calls[:]
      with stubs.patched(bm, berlekamp_massey=PB):
        return bm.LinearComplexity(s, n)

    for p in pysym.explore(run, max_paths=100):
      e = p.eng
      rec.path(p.kind)
      if p.kind != 'return' or len(calls) != 1:
        cexs.append(('wrapper', 0, n))
        continue
      ba, length = calls[0]
      s = e.notes['s'].t
      W = s.size()
      goal = z3.BoolVal(length == n and len(ba) == (n + 7) // 8)
      for i, b in enumerate(ba):
        goal = z3.And(goal, common.TB(b, W) == z3.LShR(s, 8 * i) & 0xff)
      r, m, _ = e.prove(goal)
      if r == 'proved':
        rec.obligation('proved')
      else:
        cexs.append(('wrapper_bytes', 0, n))
      done += 1
  for bad_n in (-9, 8 * 2**31 + 1):
    try:
      bm.LinearComplexity(0, bad_n)
      cexs.append(('size_check', 0, 0))
    except ValueError:
      rec.obligation('proved')
    except OverflowError:
      rec.obligation('proved')
  rec.reach(1, 1 if done else 0)
  for tag, s_, n in cexs[:2]:
    rec.violation('berlekamp_massey.LinearComplexity', tag,
                  'wrapper does not hand over the little-endian bytes / '
                  'length', dict(n=n), {}, True)


def counts(rec, seed, nmax):
  bm = _bm()
  rec.functions('paranoid_crypto.lib.randomness_tests.berlekamp_massey:'
                'LfsrCount',
                'paranoid_crypto.lib.randomness_tests.berlekamp_massey:'
                'LfsrLogProbability')
  rec.bounds('n <= %d: number of sequences with complexity m obtained by '
             'solver enumeration (blocking clauses) of the textbook encoding; '
             'consistency LfsrCount = 2^(n + LfsrLogProbability) for n <= 64'
             % nmax)
  bad = []
  for n in range(1, nmax + 1):
    w = z3.BitVec('w', n)
    bits = [z3.Extract(i, i, w) == 1 for i in range(n)]
    L = cxxsym.textbook_bm(bits, width=16)
    for m in range(0, n + 1):
      s = z3.Solver()
      s.add(L == m)
      cnt = 0
      while str(s.check()) == 'sat':
        cnt += 1
        val = s.model().eval(w, model_completion=True)
        s.add(w != val)
        if cnt > 2**n:
          break
      rec.path('enumeration')
      if cnt == bm.LfsrCount(n, m):
        rec.obligation('proved')
      else:
        bad.append('LfsrCount(%d, %d) = %d, true count %d' %
                   (n, m, bm.LfsrCount(n, m), cnt))
  for n in range(1, 65):
    for m in range(0, n + 1):
      c = bm.LfsrCount(n, m)
      lp = bm.LfsrLogProbability(n, m)
      if c != 2**(n + lp):
        bad.append('LfsrCount(%d,%d)=%d != 2^(n+logprob)=2^%d' %
                   (n, m, c, n + lp))
    if sum(bm.LfsrCount(n, m) for m in range(n + 1)) != 2**n:
      bad.append('counts for n=%d do not sum to 2^n' % n)
  rec.obligation('proved') if not bad else None
  rec.reach(1, 1)
  rec.sample(dict(fn='LfsrCount', nmax=nmax))
  for b in bad[:3]:
    rec.violation('berlekamp_massey.LfsrCount', 'count', b, {}, {}, True)


def interp_validation(rec, seed, trials):
  """Serval-style validation of the interpreter: concrete inputs through the
  interpreted AST and through g++ builds of both variants of the working
  tree, plus the Python routine and the textbook algorithm."""
  bm = _bm()
  rec.functions('harness/cxxsym.py:Interp (validation against g++ builds)')
  rec.bounds('%d seeded sequences of lengths 0..320 (random, leading/trailing '
             'zero runs, all-one), both variants' % trials)
  rng = random.Random(seed + 17)
  cc = Compiled()
  bad = []
  try:
    for t in range(trials):
      n = rng.choice([1, 2, 7, 8, 9, 63, 64, 65, 100, 127, 128, 129, 191,
                      192, 193, 200, 256, 257, 320])
      s = rng.getrandbits(n) if n else 0
      r_ = rng.random()
      if r_ < 0.2 and n > 70:
        s &= ~((1 << 64) - 1)
      elif r_ < 0.3:
        s = (1 << n) - 1
      elif r_ < 0.4 and n > 70:
        s &= (1 << (n - 64)) - 1
      want = textbook_concrete(s, n)
      nwords = ((n + 7) // 8 + 7) // 8
      words = [V((s >> (64 * i)) & (2**64 - 1), 64, False)
               for i in range(nwords)]
      for name, cl in (('portable', False), ('clmul', True)):
        c = cc.run(name, s, n)
        try:
          got = cxxsym.lfsr_length_impl(words, n, cl)[0] if words or n == 0 \
              else None
          g = got.v if got is not None and got.concrete else None
        except cxxsym.Unsupported as ex:
          g = 'unsupported: %s' % ex
        if words and g != c:
          bad.append('interpreter %r vs compiled %r (%s, n=%d, s=%#x)' %
                     (g, c, name, n, s))
        if c != want:
          bad.append('compiled %s = %d, textbook %d (n=%d, s=%#x)' %
                     (name, c, want, n, s))
      if bm.LinearComplexityNative(s, n) != want:
        bad.append('python native differs from textbook (n=%d, s=%#x)' %
                   (n, s))
      rec.replayed()
  finally:
    cc.close()
  rec.path('validation')
  rec.reach(1, 1)
  rec.sample(dict(validation_trials=trials, disagreements=len(bad)))
  if not bad:
    rec.d['obligations'] += trials
    rec.d['proved'] += trials
  for b in bad[:3]:
    if b.startswith('interpreter'):
      rec.inconclusive('cxxsym validation: ' + b)
    else:
      import re  # pylint: disable=g-import-not-at-top
      m = re.search(r'n=(\d+), s=(0x[0-9a-f]+)', b)
      rec.violation('berlekamp_massey.cc:LfsrLengthImpl', 'concrete', b,
                    dict(n=int(m.group(1)), s=int(m.group(2), 16)),
                    dict(module='harness.props.c14', function='replay_seq',
                         args=dict(s=str(int(m.group(2), 16)),
                                   n=int(m.group(1)))), True)


_EMPTY_PROG = r"""
import ctypes, sys
lib = ctypes.CDLL(sys.argv[1])
print(lib.lfsr_len(b'', 0, 0))
"""


def empty_input(rec, seed):
  """Length 0: LfsrLength(<no bytes>, 0).  The interpreter reports any vector
  access outside its bounds; the compiled variants run in a subprocess built
  with -fsanitize=address so that an out-of-bounds read is observable."""
  import sys  # pylint: disable=g-import-not-at-top
  rec.functions('paranoid_crypto/lib/randomness_tests/cc_util/'
                'berlekamp_massey.cc:LfsrLength',
                'paranoid_crypto/lib/randomness_tests/cc_util/'
                'berlekamp_massey.cc:LfsrLengthImpl')
  rec.bounds('the empty sequence (0 bytes, n = 0), both variants')
  for clmul in (False, True):
    name = 'clmul' if clmul else 'portable'
    rec.path('merged')
    try:
      ok, length, it = cxxsym.lfsr_length([], 0, clmul)
      if ok.concrete and ok.v == 1 and length.concrete and length.v == 0:
        rec.obligation('proved')
        continue
      what = 'LfsrLength(empty, 0) = (%r, %r)' % (ok, length)
    except cxxsym.Unsupported as ex:
      what = str(ex)
    bad, detail = replay_empty(name)
    rec.replayed()
    if 'out of range' in what or bad:
      rec.violation('berlekamp_massey.cc:LfsrLengthImpl', 'empty_input',
                    '%s variant: %s; %s' % (name, what, detail),
                    dict(variant=name, n=0),
                    dict(module='harness.props.c14',
                         function='replay_empty_cmd', args=dict(name=name)),
                    bad, tags=['empty_vector_read'])
    else:
      rec.inconclusive('empty input: ' + what)
  rec.reach(1, 1)
  rec.sample(dict(fn='LfsrLength', input='empty'))


def replay_empty(name):
  import sys  # pylint: disable=g-import-not-at-top
  tmp = tempfile.mkdtemp(prefix='verif_bm_')
  try:
    flags = ['-mpclmul', '-D__CLMUL__'] if name == 'clmul' else []
    so = os.path.join(tmp, name + '_asan.so')
    r = subprocess.run(['g++', '-O1', '-g', '-std=c++17', '-shared', '-fPIC',
                        '-D_GLIBCXX_ASSERTIONS', '-I' + REPO] + flags +
                       [WRAPPER, '-o', so], capture_output=True, text=True,
                       check=False)
    if r.returncode != 0:
      return False, 'build failed: ' + r.stderr[-200:]
    prog = os.path.join(tmp, 'p.py')
    with open(prog, 'w') as f:
      f.write(_EMPTY_PROG)
    r = subprocess.run([sys.executable, prog, so], capture_output=True,
                       text=True, check=False, timeout=60)
    crashed = r.returncode != 0
    return crashed, ('compiled with -D_GLIBCXX_ASSERTIONS: exit %s %s' %
                     (r.returncode, (r.stderr or r.stdout).strip()[-160:]))
  finally:
    shutil.rmtree(tmp, ignore_errors=True)


def replay_empty_cmd(name):
  bad, detail = replay_empty(name)
  print(detail)
  return bad


def jobs(tier, seed):
  thorough = tier == 'thorough'
  out = [Job('empty_input', empty_input, {}, timeout=600, cost=5),
         Job('interp_validation', interp_validation,
             dict(trials=150 if not thorough else 2000), timeout=3000,
             cost=20)]
  for n in ([0, 1, 2, 3, 5, 8, 11, 12, 13] if not thorough else
            list(range(0, 17))):
    for clmul in (False, True):
      out.append(Job('cpp_%s_n%d' % ('clmul' if clmul else 'portable', n),
                     cpp_vs_textbook, dict(n=n, clmul=clmul), timeout=3000,
                     cost=2**(n / 2.0)))
  out.append(Job('wrapper', wrapper, dict(nbytes=2), timeout=1200, cost=20))
  for n in ([1, 4, 8, 10] if not thorough else [1, 4, 8, 10, 12, 13]):
    out.append(Job('python_native_n%d' % n, python_native, dict(n=n),
                   timeout=3000, cost=2**(n / 2.0)))
  out.append(Job('python_wrapper', python_wrapper, {}, timeout=600, cost=3))
  cubes = []
  bgs = ['zero', 'first', 'ones', 'alt'] + (['tail', 'random'] if thorough
                                            else [])
  # the cost of a cube grows with the number of steps after the first
  # symbolic bit: early bits only for n <= 129, late bits for longer strings
  for n in ([64, 65] if not thorough else [64, 65, 66]):
    for bg in bgs:
      cubes.append((n, [0, 1, 2, 61, 62, 63, 64, 65][:8], bg))
  for n in ([128, 129] if not thorough else [127, 128, 129, 130]):
    for bg in bgs:
      cubes.append((n, [61, 62, 63, 64, 65, 66, n - 2, n - 1], bg))
    if thorough:
      cubes.append((n, [0, 1, 2, 63, 64, 65], 'zero'))
      cubes.append((n, [0, 1, 2, 63, 64, 65], 'alt'))
  for n in ([193, 256] if not thorough else
            [191, 192, 193, 200, 255, 256, 257, 320]):
    late = sorted(p for p in {126, 127, 128, 129, 190, 191, 192, 193, 254,
                              255, 256, 257, n - 3, n - 2, n - 1}
                  if 126 <= p < n)
    for bg in bgs:
      if thorough and n <= 256:
        cubes.append((n, late[-10:], bg))
        if len(late) > 10:
          cubes.append((n, late[:10], bg))
      else:
        cubes.append((n, late[-6:], bg))
        cubes.append((n, [q for q in late if q in (127, 128, 191, 192, 255,
                                                   n - 1)][:6], bg))
  for i, (n, pos, bg) in enumerate(cubes):
    out.append(Job('cube_n%d_%s_%d' % (n, bg, i), variants_cube,
                   dict(n=n, positions=pos, bg_kind=bg),
                   timeout=3000 if thorough else 1200,
                   cost=n / 16.0))
  out.append(Job('counts', counts, dict(nmax=8 if not thorough else 10),
                 timeout=3000, cost=30))
  return out
