"""C20 - bundled generators return exactly the requested bits, reproducibly."""
import z3

from harness import common
from harness import pysym
from harness import stubs
from harness import symbytes
from harness.common import T, ivar, inputs_of
from harness.pysym import SInt
from harness.runner import Job

OUTSIDE = [
    'distribution of the entropy / hash / numpy / MT19937 outputs (stubs '
    'return arbitrary bytes or an arbitrary integer below 2^n)',
    'request sizes above 2048 bits and sizes not listed per job',
    'SubsetSum is run with 2 generators instead of 16..64 (same code, the '
    'instance parameter only sets the number of forks)',
    'truncated-LCG emulation for output sizes that are not a multiple of 8 '
    '(20, 28 bits): no reference for the byte padding',
]
ASSUMPTIONS = [
    'range jobs: x % 2^k for k >= 16 is abstracted to an arbitrary value in '
    '[0, 2^k) (sound for the range claim; counterexamples are replayed on the '
    'real generator by a concrete seed search)',
    'retry loops are explored up to a bounded number of retries',
    'bitwise xor/or/and on unbounded symbolic integers are uninterpreted '
    'functions with range axioms (non-negative, closed under 2^k bounds)',
]

ENTROPY_FREE = None


def _rng():
  common.lib()
  from paranoid_crypto.lib.randomness_tests import rng  # pylint: disable=g-import-not-at-top
  return rng


def _key_of(x):
  """Hashable identity of a (possibly symbolic, possibly nested) value."""
  if isinstance(x, (list, tuple)):
    return tuple(_key_of(y) for y in x)
  if pysym.is_sym(x):
    return ('t', T(x).get_id())
  if isinstance(x, (bytes, bytearray)):
    return ('b', bytes(x))
  return ('v', x)


class _Os:

  @staticmethod
  def urandom(k):
    stubs.USED.add('os.urandom(k): k arbitrary bytes')
    e = pysym.eng()
    cap = e.notes.get('entropy_cap')
    if cap is not None:
      used = sum(1 for x in e.log if x[0] == 'entropy')
      if used >= cap:
        raise pysym.PathAbort('bound-hit: retry loop beyond %d entropy calls'
                              % cap)
    return symbytes.fresh_bytes(k, 'urandom')


class _Shake:

  def __init__(self):
    self.data = []

  def update(self, b):
    self.data.append(b)

  def digest(self, k):
    stubs.USED.add('hashlib.shake_128().digest(k): k arbitrary bytes, the '
                   'same bytes for the same absorbed data')
    e = pysym.eng()
    key = ('shake', _key_of(self.data), k)
    if key not in e.memo:
      e.memo[key] = (symbytes.fresh_bytes(k, 'shake'), self.data)
      e.log[-1] = ('hash', 'shake', k)
    return symbytes.SymBytes(list(e.memo[key][0]))


class _Hashlib:
  shake_128 = _Shake


class _Random:

  @staticmethod
  def seed(s=None):
    pysym.eng().notes['mt_seed'] = s
    pysym.eng().notes['mt_calls'] = 0
    if s is None:
      pysym.eng().log.append(('entropy', 'random.seed(None)', 0))

  @staticmethod
  def getrandbits(n):
    stubs.USED.add('random.getrandbits(n): arbitrary integer in [0, 2^n), '
                   'the same for the same seed, call index and n')
    e = pysym.eng()
    sd = e.notes.get('mt_seed')
    idx = e.notes.get('mt_calls', 0)
    e.notes['mt_calls'] = idx + 1
    key = ('mt', _key_of(sd), idx, n) if sd is not None else None
    if key is not None and key in e.memo:
      return SInt(e.memo[key][0])
    t = e.fresh('mt')
    e.assume(z3.And(t >= 0, t < 2**n))
    if key is not None:
      e.memo[key] = (t, sd)
    return SInt(t)


class _NumpyRandom:

  class BitGenerator:
    pass

  class _BG:

    def __init__(self, seed=None):
      self.seed = seed
      self.calls = 0
      if seed is None:
        pysym.eng().log.append(('entropy', 'numpy seed None', 0))

  class PCG64(_BG):
    pass

  class Philox(_BG):
    pass

  class SFC64(_BG):
    pass

  class Generator:

    def __init__(self, bg):
      self.bg = bg

    def bytes(self, k):
      stubs.USED.add('numpy Generator.bytes(k): k arbitrary bytes, the same '
                     'for the same bit generator, seed and call index')
      e = pysym.eng()
      sd = self.bg.seed
      idx = self.bg.calls
      self.bg.calls += 1
      key = None if sd is None else (
          'numpy', type(self.bg).__name__, _key_of(sd), idx, k)
      if key is not None and key in e.memo:
        return symbytes.SymBytes(list(e.memo[key][0]))
      out = symbytes.fresh_bytes(k, 'numpy')
      e.log[-1] = ('hash', 'numpy', k)
      if key is not None:
        e.memo[key] = (out, sd)
      return symbytes.SymBytes(list(out))


class _Math:

  @staticmethod
  def gcd(a, b):
    if not (pysym.is_sym(a) or pysym.is_sym(b)):
      import math  # pylint: disable=g-import-not-at-top
      return math.gcd(a, b)
    stubs.USED.add('math.gcd (Lehmer seed selection): arbitrary non-negative '
                   'integer (the range claim does not depend on it)')
    e = pysym.eng()
    t = e.fresh('gcd')
    e.assume(t >= 0)
    return SInt(t)


def _patches(rng):
  return dict(os=_Os, hashlib=_Hashlib, random=_Random,
              numpy_random=_NumpyRandom, int=symbytes.SymInt,
              bytearray=symbytes.sym_bytearray, bytes=symbytes.sym_bytes,
              math=_Math)


# generators whose seed parameter is documented as ignored
SEED_IGNORED = ('urandom', 'subsetsum')

# seed ranges (the state width decides what is interesting)
SEED_BITS = {
    'shake128': 16, 'mt19937': 64, 'java': 64, 'lcgnist': 40,
    'xorshift128+': 130, 'xorshift*': 130, 'xorwow': 200,
}


def _instance(rng, name):
  if name.startswith('subsetsum'):
    bits = int(name[len('subsetsum'):].split('/')[0])
    return rng.SubsetSum(bits, 2)
  if name in ('pcg64', 'philox', 'sfc64'):
    cls = dict(pcg64=_NumpyRandom.PCG64, philox=_NumpyRandom.Philox,
               sfc64=_NumpyRandom.SFC64)[name]
    return rng.NumpyRng(cls)
  return rng.RNGS[name]


def _classify_trunclcg(name, n, res_val, gen):
  """Tags for a concrete out-of-range witness."""
  tags = []
  if name.startswith('trunclcg') and n % 8 != 0 and n > 8:
    nbytes = (n + 7) // 8
    top = res_val >> (8 * (nbytes - 1))
    if res_val < 256**nbytes and top >= (1 << (n % 8)):
      tags.append('trunclcg_wrong_byte_masked')
  return tags


def range_job(rec, seed, name, ns, seeded):
  rng = _rng()
  gen = _instance(rng, name)
  cls = type(gen).__name__
  rec.functions('paranoid_crypto.lib.randomness_tests.rng:%s.RandomBits' % cls)
  sbits = SEED_BITS.get(name, 300)
  rec.bounds('generator %s, n in %s, %s' %
             (name, _fmt_ns(ns), ('every non-zero seed below 2^%d' % sbits)
              if seeded else 'seed=None, every value of the entropy bytes'))
  cexs = []
  reach = 0
  sample_done = False
  with stubs.patched(rng, **_patches(rng)):
    for n in ns:

      def run(e, n=n):
        s = None
        if seeded:
          s = ivar(e, 'seed', lo=1, hi=2**sbits)
        e.notes['seed'] = s
        # range-only abstraction of big reductions (x % 2^k, k >= 16)
        e.notes['havoc_mod'] = 1 << 16
        if name.startswith('subsetsum'):
          blocks = (n + gen.bits - 1) // gen.bits
          e.notes['entropy_cap'] = gen.n + blocks + 1  # one retry
        elif name.startswith(('lehmer', 'lcgnist')):
          e.notes['entropy_cap'] = 2  # one retry
        return gen.RandomBits(n, seed=s)

      # retry loops (SubsetSum on a zero sum, Lehmer / LcgNist seed selection)
      # are explored up to a small number of retries; deeper retries are
      # bound-hit paths (outside the claim)
      maxdec = 20000
      for p in pysym.explore(run, max_paths=3000, max_decisions=maxdec):
        e = p.eng
        if p.kind == 'abort' and str(p.value).startswith('bound-hit'):
          rec.path('bound-hit')
          continue
        rec.path(p.kind)
        if p.kind == 'abort':
          rec.inconclusive('%s n=%d: %s' % (name, n, p.value))
          continue
        if p.kind == 'raise':
          r, m = e.feasible()
          if r == 'sat':
            cexs.append(('raises', n, inputs_of(e, m), repr(p.value)))
          elif r != 'unsat':
            rec.inconclusive('exception path undecided %s n=%d' % (name, n))
          continue
        res = p.value
        goal = z3.And(T(res) >= 0, T(res) < 2**n)
        r, m, _ = e.prove(goal, timeout_ms=60000)
        if r == 'proved':
          rec.obligation('proved')
        elif r == 'unknown':
          rec.obligation('unknown', '%s n=%d range' % (name, n))
        else:
          cexs.append(('range', n, inputs_of(e, m),
                       pysym.model_value(m, res)))
          if name.startswith('trunclcg') and n % 8 != 0 and n > 8:
            # refined claim that survives the recorded finding F5 (wrong byte
            # masked): the value still fits the requested number of bytes
            nb = (n + 7) // 8
            r2, m2, _ = e.prove(z3.And(T(res) >= 0, T(res) < 256**nb),
                                timeout_ms=60000)
            if r2 == 'proved':
              rec.obligation('proved')
            elif r2 == 'unknown':
              rec.obligation('unknown', '%s n=%d byte range' % (name, n))
            else:
              cexs.append(('range_bytes', n, inputs_of(e, m2),
                           pysym.model_value(m2, res)))
        # reproducibility: with a seed, no entropy source may be consulted
        if seeded and not name.startswith(SEED_IGNORED):
          ent = [x for x in e.log if x[0] == 'entropy']
          if ent:
            r, m = e.feasible()
            if r == 'sat':
              cexs.append(('entropy_with_seed', n, inputs_of(e, m), ent[0][1]))
            elif r != 'unsat':
              rec.inconclusive('entropy path undecided')
          else:
            rec.obligation('proved')
        if not sample_done:
          r, m = e.feasible()
          if r == 'sat':
            reach += 1
            sample_done = True
            rec.sample(dict(generator=name, n=n, witness=inputs_of(e, m),
                            result=pysym.model_value(m, res)))
  rec.reach(1, min(reach, 1))
  seen = set()
  for kind, n, cex, extra in cexs:
    s = cex.get('seed') if seeded else None
    bad, tags, detail = replay(name, n, s, kind)
    key = (kind, tuple(tags))
    if key in seen:
      continue
    seen.add(key)
    rec.replayed()
    if kind in ('range', 'range_bytes', 'raises') and not bad:
      # abstraction / entropy-driven, or a code path the library models do
      # not follow: confirm by a concrete search over seeds
      bad, tags, detail = replay_search(name, n, seeded)
    rec.violation('rng.%s.RandomBits' % cls, kind,
                  '%s: %s' % (name, detail), dict(generator=name, n=n, seed=s),
                  dict(module='harness.props.c20', function='replay_cmd',
                       args=dict(name=name, n=n,
                                 seed=str(s) if s is not None else None,
                                 kind=kind)), bad, tags=tags)
    if len(seen) >= 3:
      break


HISTORY_PAIRS = [(29, 32), (32, 29), (25, 32), (32, 25), (31, 32), (33, 32),
                 (32, 33), (1, 32), (5, 8), (8, 5), (57, 64), (64, 57),
                 (61, 64), (64, 61), (65, 64), (64, 65), (1, 64), (33, 40)]


def history_job(rec, seed, name, pairs):
  """Purity over call histories: RandomBits(n_b, s), RandomBits(n_a, s),
  RandomBits(n_b, s) on the same generator object - first and third result
  are equal for every non-zero seed."""
  rng = _rng()
  gen = _instance(rng, name)
  cls = type(gen).__name__
  rec.functions('paranoid_crypto.lib.randomness_tests.rng:%s.RandomBits' % cls)
  sbits = SEED_BITS.get(name, 300)
  rec.bounds('generator %s, every non-zero seed below 2^%d, call histories '
             '(n_b, n_a, n_b) on one generator object for (n_a, n_b) in %s' %
             (name, sbits, pairs))
  cexs = []
  reach = 0
  with stubs.patched(rng, **_patches(rng)):
    for (na, nb) in pairs:

      def run(e, na=na, nb=nb):
        s = ivar(e, 'seed', lo=1, hi=2**sbits)
        e.notes['havoc_mod'] = 1 << 16
        if name.startswith(('lehmer', 'lcgnist')):
          e.notes['entropy_cap'] = 2
        r1 = gen.RandomBits(nb, seed=s)
        gen.RandomBits(na, seed=s)
        r2 = gen.RandomBits(nb, seed=s)
        return r1, r2

      for p in pysym.explore(run, max_paths=200, max_decisions=20000):
        e = p.eng
        if p.kind == 'abort' and str(p.value).startswith('bound-hit'):
          rec.path('bound-hit')
          continue
        rec.path(p.kind)
        if p.kind == 'abort':
          rec.inconclusive('%s history (%d,%d): %s' % (name, na, nb, p.value))
          continue
        if p.kind == 'raise':
          r, m = e.feasible()
          if r == 'sat':
            cexs.append((na, nb, inputs_of(e, m), repr(p.value)))
          elif r != 'unsat':
            rec.inconclusive('exception path undecided %s' % name)
          continue
        r1, r2 = p.value
        r, m, _ = e.prove(T(r1) == T(r2), timeout_ms=60000)
        if r == 'proved':
          rec.obligation('proved')
        elif r == 'unknown':
          rec.obligation('unknown', '%s history (%d,%d)' % (name, na, nb))
        else:
          cexs.append((na, nb, inputs_of(e, m), 'results differ'))
        if not reach:
          r, m = e.feasible()
          if r == 'sat':
            reach = 1
            rec.sample(dict(generator=name, history=[nb, na, nb],
                            witness=inputs_of(e, m)))
  rec.reach(1, reach)
  for na, nb, cex, what in cexs[:2]:
    bad, detail = replay_history(name, na, nb, cex['seed'])
    rec.replayed()
    rec.violation('rng.%s.RandomBits' % cls, 'history',
                  '%s: %s' % (name, detail),
                  dict(generator=name, history=[nb, na, nb],
                       seed=cex['seed']),
                  dict(module='harness.props.c20', function='replay_history_cmd',
                       args=dict(name=name, na=na, nb=nb,
                                 seed=str(cex['seed']))), bad)


def replay_history(name, na, nb, seed):
  """Concrete history on a freshly loaded module (no state left over from
  the symbolic runs), plus the neighbouring histories of the same window."""
  import importlib  # pylint: disable=g-import-not-at-top
  rng = importlib.reload(_rng())
  na, nb, seed = int(na), int(nb), int(seed)
  # the real generator of the registry (the numpy-backed ones are models only
  # inside the symbolic run)
  gen = rng.RNGS[name] if name in rng.RNGS else _instance(rng, name)
  try:
    fresh = gen.RandomBits(nb, seed=seed)
    gen.RandomBits(na, seed=seed)
    again = gen.RandomBits(nb, seed=seed)
  except Exception as ex:  # pylint: disable=broad-except
    return True, 'history (%d, %d, %d) seed=%d raised %r' % (nb, na, nb, seed,
                                                            ex)
  return fresh != again, (
      'RandomBits(%d, seed=%d) = %#x, after RandomBits(%d, seed=%d) the same '
      'call gives %#x' % (nb, seed, fresh, na, seed, again))


def replay_history_cmd(name, na, nb, seed):
  bad, detail = replay_history(name, na, nb, seed)
  print(detail)
  return bad


def _fmt_ns(ns):
  ns = list(ns)
  if len(ns) > 8:
    return '{%d..%d} (%d sizes)' % (ns[0], ns[-1], len(ns))
  return str(ns)


def replay(name, n, seed, kind):
  rng = _rng()
  gen = rng.RNGS[name]
  n = int(n)
  seed = int(seed) if seed is not None else None
  try:
    v = gen.RandomBits(n, seed=seed)
  except Exception as ex:  # pylint: disable=broad-except
    return True, ['raises'], 'RandomBits(%d, seed=%r) raised %r' % (n, seed,
                                                                     ex)
  if kind == 'entropy_with_seed':
    vals = {gen.RandomBits(n, seed=seed) for _ in range(6)} | {v}
    # also in a fresh process state: results must be identical
    return len(vals) > 1, ['nondeterministic'], (
        'RandomBits(%d, seed=%d) gave %d different results in 7 calls' %
        (n, seed, len(vals)))
  bad = not 0 <= v < 2**n
  return bad, _classify_trunclcg(name, n, v, gen), (
      'RandomBits(%d, seed=%r) = %#x is %s [0, 2^%d)' %
      (n, seed, v, 'outside' if bad else 'inside', n))


def replay_search(name, n, seeded=False):
  rng = _rng()
  gen = rng.RNGS[name]
  n = int(n)
  for t in range(1, 2001):
    sd = (t * 0x9E3779B97F4A7C15) % 2**64 if seeded else None
    try:
      v = gen.RandomBits(n, seed=sd)
    except Exception as ex:  # pylint: disable=broad-except
      return True, ['raises'], 'RandomBits(%d, seed=%r) raised %r' % (n, sd,
                                                                       ex)
    if not 0 <= v < 2**n:
      return True, _classify_trunclcg(name, n, v, gen), (
          'RandomBits(%d, seed=%r) = %#x outside [0, 2^%d)' % (n, sd, v, n))
  return False, [], 'not reproduced in 2000 calls'


def replay_cmd(name, n, seed, kind):
  bad, _, detail = replay(name, n, None if seed in (None, 'None') else seed,
                          kind)
  if not bad and kind == 'range':
    bad, _, detail = replay_search(name, int(n), seed not in (None, 'None'))
  print(detail)
  return bad


def seed_ignored_job(rec, seed):
  """urandom / subsetsum*: the seed is documented as ignored ('Cannot seed
  os.urandom'): with a seed the entropy source is still consulted."""
  rng = _rng()
  rec.functions('paranoid_crypto.lib.randomness_tests.rng:Urandom.RandomBits',
                'paranoid_crypto.lib.randomness_tests.rng:SubsetSum.RandomBits')
  rec.bounds('urandom and subsetsum256/16 with an arbitrary non-zero seed, '
             'n = 64')
  hits = []
  with stubs.patched(rng, **_patches(rng)):
    for name in ('urandom', 'subsetsum256/16'):
      gen = _instance(rng, name)

      def run(e, gen=gen):
        s = ivar(e, 'seed', lo=1, hi=2**64)
        return gen.RandomBits(64, seed=s)

      for p in pysym.explore(run, max_paths=50, max_decisions=200):
        if p.kind != 'return':
          continue
        rec.path(p.kind)
        e = p.eng
        if any(x[0] == 'entropy' for x in e.log):
          r, m = e.feasible()
          if r == 'sat':
            hits.append((name, inputs_of(e, m)['seed']))
            break
  rec.reach(2, len(hits))
  for name, s in hits:
    gen = rng.RNGS[name]
    vals = {gen.RandomBits(64, seed=s) for _ in range(4)}
    rec.replayed()
    rec.violation('rng.%s.RandomBits' % type(gen).__name__, 'determinism',
                  '%s ignores its seed: %d different results for seed %d' %
                  (name, len(vals), s), dict(generator=name, seed=s, n=64),
                  dict(module='harness.props.c20', function='replay_cmd',
                       args=dict(name=name, n=64, seed=str(s),
                                 kind='entropy_with_seed')), len(vals) > 1,
                  tags=['seed_ignored_by_design'])


# ---------------------------------------------------------------------------
# emulation clause


def java_emulation(rec, seed, ns):
  rng = _rng()
  gen = rng.RNGS['java']
  rec.functions('paranoid_crypto.lib.randomness_tests.rng:JavaRandom.RandomBits')
  rec.bounds('every seed in [0, 2^64), n in %s; reference: new BigInteger(n, '
             'new java.util.Random(seed)) written from the Java SE '
             'documentation as z3 terms' % _fmt_ns(ns))
  cexs = []
  reach = 0
  with stubs.patched(rng, **_patches(rng)):
    for n in ns:

      def run(e, n=n):
        s = ivar(e, 'seed', lo=0, hi=2**64)
        e.notes['seed'] = s
        return gen.RandomBits(n, seed=s)

      for p in pysym.explore(run, max_paths=20):
        e = p.eng
        rec.path(p.kind)
        if p.kind != 'return':
          r, m = e.feasible()
          if r == 'sat':
            cexs.append((n, inputs_of(e, m)))
          continue
        s = e.notes['seed']
        # reference model (Java): scramble, next(32) per 4 bytes, nextBytes
        # little-endian within each int, BigInteger: randomBits[0] masked,
        # big-endian magnitude
        mask48 = (1 << 48) - 1
        st = T((s ^ 0x5DEECE66D)) % (1 << 48)
        nbytes = (n + 7) // 8
        bs = []
        i = 0
        while i < nbytes:
          st = (st * 0x5DEECE66D + 0xB) % (1 << 48)
          val = st / (1 << 16)  # next(32) as unsigned 32-bit pattern
          for k in range(min(nbytes - i, 4)):
            bs.append((val / (256**k)) % 256)
            i += 1
        excess = 8 * nbytes - n
        bs[0] = bs[0] % (1 << (8 - excess))
        ref = z3.IntVal(0)
        for b in bs:
          ref = ref * 256 + b
        r, m, _ = e.prove(T(p.value) == ref, timeout_ms=60000)
        if r == 'proved':
          rec.obligation('proved')
        elif r == 'unknown':
          rec.obligation('unknown', 'java emulation n=%d' % n)
        else:
          cexs.append((n, inputs_of(e, m)))
        if reach == 0:
          r, m = e.feasible()
          if r == 'sat':
            reach = 1
            rec.sample(dict(generator='java', n=n, witness=inputs_of(e, m)))
  rec.reach(1, reach)
  for n, cex in cexs[:3]:
    bad = replay_java(n, cex['seed'])
    rec.replayed()
    rec.violation('rng.JavaRandom.RandomBits', 'emulation',
                  'differs from java.util.Random/BigInteger reference',
                  dict(n=n, seed=cex['seed']),
                  dict(module='harness.props.c20', function='replay_java',
                       args=dict(n=n, seed=str(cex['seed']))), bad)


def _java_reference(n, seed):
  mask = (1 << 48) - 1
  st = (seed ^ 0x5DEECE66D) & mask
  nbytes = (n + 7) // 8
  bs = []
  while len(bs) < nbytes:
    st = (st * 0x5DEECE66D + 0xB) & mask
    val = st >> 16
    for k in range(min(nbytes - len(bs), 4)):
      bs.append((val >> (8 * k)) & 0xff)
  excess = 8 * nbytes - n
  bs[0] &= (1 << (8 - excess)) - 1
  return int.from_bytes(bytes(bs), 'big')


def replay_java(n, seed):
  rng = _rng()
  n, seed = int(n), int(seed)
  got = rng.RNGS['java'].RandomBits(n, seed=seed)
  want = _java_reference(n, seed)
  print('java n=%d seed=%d got %#x reference %#x' % (n, seed, got, want))
  return got != want


def trunclcg_emulation(rec, seed, name, ns):
  rng = _rng()
  gen = rng.RNGS[name]
  k = gen.output_size
  rec.functions(
      'paranoid_crypto.lib.randomness_tests.rng:TruncLcgRand.RandomBits')
  rec.bounds('%s: every seed in [0, 2^%d), n in %s; reference: upper %d bits '
             'of each state of x -> a*x+1 mod 2^%d, concatenated '
             'little-endian, truncated to n bits' %
             (name, 2 * k, _fmt_ns(ns), k, 2 * k))
  cexs = []
  reach = 0
  with stubs.patched(rng, **_patches(rng)):
    for n in ns:

      def run(e, n=n):
        s = ivar(e, 'seed', lo=0, hi=2**(2 * k))
        e.notes['seed'] = s
        return gen.RandomBits(n, seed=s)

      for p in pysym.explore(run, max_paths=20):
        e = p.eng
        rec.path(p.kind)
        if p.kind != 'return':
          r, m = e.feasible()
          if r == 'sat':
            cexs.append((n, inputs_of(e, m)))
          continue
        st = e.notes['seed'].t
        ref = z3.IntVal(0)
        for j in range((n + k - 1) // k):
          st = (st * gen.a + gen.c) % (1 << (2 * k))
          ref = ref + (st / (1 << k)) * (1 << (k * j))
        ref = ref % (1 << n)
        r, m, _ = e.prove(T(p.value) == ref, timeout_ms=60000)
        if r == 'proved':
          rec.obligation('proved')
        elif r == 'unknown':
          rec.obligation('unknown', '%s emulation n=%d' % (name, n))
        else:
          cexs.append((n, inputs_of(e, m)))
        if reach == 0:
          r, m = e.feasible()
          if r == 'sat':
            reach = 1
            rec.sample(dict(generator=name, n=n, witness=inputs_of(e, m)))
  rec.reach(1, reach)
  seen = set()
  for n, cex in cexs:
    bad, tags = replay_trunclcg(name, n, cex['seed'])
    key = tuple(tags)
    if key in seen:
      continue
    seen.add(key)
    rec.replayed()
    rec.violation('rng.TruncLcgRand.RandomBits', 'emulation',
                  '%s n=%d differs from the truncated-LCG stream' % (name, n),
                  dict(n=n, seed=cex['seed'], generator=name),
                  dict(module='harness.props.c20',
                       function='replay_trunclcg_cmd',
                       args=dict(name=name, n=n, seed=str(cex['seed']))), bad,
                  tags=tags)
    if len(seen) >= 3:
      break


def replay_trunclcg(name, n, seed):
  rng = _rng()
  gen = rng.RNGS[name]
  n, seed = int(n), int(seed)
  k = gen.output_size
  st = seed
  ref = 0
  for j in range((n + k - 1) // k):
    st = (st * gen.a + gen.c) % (1 << (2 * k))
    ref |= (st >> k) << (k * j)
  full = ref
  ref %= 1 << n
  got = gen.RandomBits(n, seed=seed)
  tags = []
  if got != ref and n % 8 != 0:
    # the known defect: the partial-byte mask hits byte 0 instead of the last
    nbytes = (n + 7) // 8
    wrong = full % (256**nbytes)
    wrong = (wrong & ~0xff) | (wrong & 0xff & ((1 << (n % 8)) - 1))
    if got == wrong:
      tags.append('trunclcg_wrong_byte_masked')
  print('%s n=%d seed=%d got %#x reference %#x' % (name, n, seed, got, ref))
  return got != ref, tags


def replay_trunclcg_cmd(name, n, seed):
  return replay_trunclcg(name, n, seed)[0]


# ---------------------------------------------------------------------------


def _ns(tier, step_mod=None):
  if tier == 'quick':
    return list(range(1, 41)) + [47, 48, 49, 63, 64, 65, 71, 72, 73, 95, 96,
                                 97, 127, 128, 129, 159, 160]
  ns = list(range(1, 161))
  for r in range(64):
    ns += [192 + r, 1984 + r]
  return sorted(set(ns))


def jobs(tier, seed):
  rng_names = [
      'urandom', 'mt19937', 'shake128', 'trunclcg16', 'trunclcg20',
      'trunclcg28', 'trunclcg32', 'trunclcg64', 'trunclcg128', 'mwc64',
      'mwc128', 'mwc256', 'mwc512', 'lehmer128', 'lehmer128/16', 'lehmer128/8',
      'xorshift128+', 'xorshift*', 'xorwow', 'java', 'lcgnist', 'pcg64',
      'philox', 'sfc64', 'subsetsum256/16', 'subsetsum256/24',
      'subsetsum256/32', 'subsetsum256/40', 'subsetsum256/48',
      'subsetsum512/56', 'subsetsum512/64', 'subsetsum1024/64']
  out = []
  ns = _ns(tier)
  for name in rng_names:
    use = ns
    if name.startswith('subsetsum'):
      use = [n for n in ns if n <= 40 or n % 64 in (0, 1, 63)][:30]
      if name not in ('subsetsum256/16', 'subsetsum512/56',
                      'subsetsum1024/64') and tier == 'quick':
        continue
    if name == 'lcgnist':
      use = [n for n in ns if n <= 72]
    if name == 'shake128':
      use = [n for n in ns if n <= 72]
    chunks = [use[i::4] for i in range(4)] if tier == 'thorough' else [use]
    for ci, ch in enumerate(chunks):
      if not ch:
        continue
      for seeded in (True, False):
        out.append(Job('range_%s_%s_%d' % (name.replace('/', '_').replace(
            '*', 'star').replace('+', 'plus'),
                                           'seed' if seeded else 'entropy',
                                           ci),
                       range_job, dict(name=name, ns=ch, seeded=seeded),
                       timeout=3000 if tier == 'thorough' else 600,
                       cost=len(ch)))
  out.append(Job('seed_ignored', seed_ignored_job, {}, timeout=300, cost=1))
  for name in rng_names:
    if name.startswith(SEED_IGNORED):
      continue
    pairs = HISTORY_PAIRS
    if name in ('lcgnist', 'shake128'):
      pairs = [q for q in pairs if max(q) <= 40]
    out.append(Job('history_%s' % name.replace('/', '_').replace(
        '*', 'star').replace('+', 'plus'), history_job,
                   dict(name=name, pairs=pairs), timeout=1200,
                   cost=2 * len(pairs)))
  jn = list(range(1, 41)) + [63, 64, 65, 96] if tier == 'quick' else list(
      range(1, 129))
  out.append(Job('java_emulation', java_emulation, dict(ns=jn), timeout=3000,
                 cost=len(jn)))
  for name in ('trunclcg16', 'trunclcg32', 'trunclcg64', 'trunclcg128'):
    tn = [1, 7, 8, 9, 15, 16, 17, 24, 31, 32, 33, 40, 63, 64, 65, 128, 129
         ] if tier == 'quick' else list(range(1, {
             'trunclcg16': 49, 'trunclcg32': 57}.get(name, 161)))
    out.append(Job('emulation_%s' % name, trunclcg_emulation,
                   dict(name=name, ns=tn), timeout=3000, cost=len(tn)))
  return out
