"""C11 - elliptic-curve arithmetic is the group law."""
import itertools

import z3

from harness import common
from harness import pb2shim
from harness import pysym
from harness import stubs
from harness.common import T, ivar, bvar, rvar, boolvar, inputs_of
from harness.pysym import SInt, SReal, SBits, FieldMod
from harness.runner import Job

OUTSIDE = [
    'the real 192..521-bit prime fields: covered through the characteristic-0 '
    'field abstraction (formulas as identities of rational functions; the '
    'transfer to F_p, p > 3, is assumed) plus toy prime fields',
    'scalar multiplication and the comb of BatchMultiplyG at the real bit '
    'lengths (only on toy curves with 6..10-bit orders)',
    'primality of the field and group orders is a ground computation '
    '(gmpy2.is_prime), not a solver result',
]
ASSUMPTIONS = [
    'field abstraction: x % mod is the identity, gmpy.invert is the field '
    'inverse (w*x = 1), == is field equality',
]


def _mods(fakes=True):
  pb = common.lib(fakes=fakes)
  pb2shim.use_fakes(fakes)
  from paranoid_crypto.lib import ec_util  # pylint: disable=g-import-not-at-top
  return pb, ec_util


def _abstract_curve(ec_util, a, b):
  c = object.__new__(ec_util.EcCurve)
  c.a, c.b = a, b
  c.mod = FieldMod()
  c.n = None
  c.g = None
  c.h = 1
  c.name = 'abstract'
  c._cache = {}
  c._table = {}
  c._table_size = 0
  return c


INF = (None, None)


def _on_curve(c, x, y):
  return y.t * y.t == x.t * x.t * x.t + T(c.a) * x.t + T(c.b)


def _law_add(c, P, Q, R):
  """Relational chord-and-tangent law R = P + Q as a z3 formula.

  P, Q, R: (x, y) of SReal/ints or INF.  P and Q are assumed on the curve."""
  if P == INF:
    return _pt_eq(R, Q)
  if Q == INF:
    return _pt_eq(R, P)
  x1, y1 = pysym._to_sreal(P[0]).t, pysym._to_sreal(P[1]).t
  x2, y2 = pysym._to_sreal(Q[0]).t, pysym._to_sreal(Q[1]).t
  a = pysym._to_sreal(c.a).t
  cases = []
  # opposite points (includes P = Q with y = 0): infinity
  cases.append(z3.Implies(z3.And(x1 == x2, y1 == -y2),
                          z3.BoolVal(R == INF)))
  if R != INF:
    x3, y3 = pysym._to_sreal(R[0]).t, pysym._to_sreal(R[1]).t
    dx, dy = x1 - x2, y1 - y2
    cases.append(z3.Implies(
        x1 != x2,
        z3.And(x3 * dx * dx == dy * dy - (x1 + x2) * dx * dx,
               y3 * dx == dy * (x1 - x3) - y1 * dx)))
    num, den = 3 * x1 * x1 + a, 2 * y1
    cases.append(z3.Implies(
        z3.And(x1 == x2, y1 == y2, y1 != 0),
        z3.And(x3 * den * den == num * num - 2 * x1 * den * den,
               y3 * den == num * (x1 - x3) - y1 * den)))
  else:
    cases.append(z3.Implies(x1 != x2, z3.BoolVal(False)))
    cases.append(z3.Implies(z3.And(x1 == x2, y1 == y2, y1 != 0),
                            z3.BoolVal(False)))
  return z3.And(cases)


def _pt_eq(R, P):
  if R == INF or P == INF:
    return z3.BoolVal(R == INF and P == INF)
  return z3.And(pysym._to_sreal(R[0]).t == pysym._to_sreal(P[0]).t,
                pysym._to_sreal(R[1]).t == pysym._to_sreal(P[1]).t)


def _sym_point(e, c, name, shape, others):
  """shape: 'inf' | 'free' | ('eq', i) | ('neg', i)."""
  if shape == 'inf':
    return INF
  if isinstance(shape, tuple):
    o = others[shape[1]]
    if o == INF:
      return INF
    if shape[0] == 'eq':
      return o
    return (o[0], -o[1])
  x, y = rvar(e, name + 'x'), rvar(e, name + 'y')
  e.assume(_on_curve(c, x, y))
  return (x, y)


def _prove(rec, e, goal, what, cexs, tag):
  r, m, _ = e.prove(goal, timeout_ms=120000)
  if r == 'proved':
    rec.obligation('proved')
  elif r == 'unknown':
    rec.obligation('unknown', what)
  else:
    cexs.append((tag, inputs_of(e, m)))


def _jac_affine_goal(c, J, A):
  """Jacobian triple J represents the affine point A (or infinity)."""
  X, Y, Z = (pysym._to_sreal(v).t for v in J)
  if A == INF:
    return Z == 0
  x, y = pysym._to_sreal(A[0]).t, pysym._to_sreal(A[1]).t
  return z3.And(Z != 0, X == x * Z * Z, Y == y * Z * Z * Z)


def affine_ops(rec, seed, a_minus3):
  pb, ec_util = _mods()
  rec.functions(*['paranoid_crypto.lib.ec_util:EcCurve.%s' % f for f in (
      'OnCurve', 'Negate', 'Double', 'Add', 'Subtract', 'AffineToJacobian',
      'JacobianToAffine', 'DoubleJacobian', 'AddJacobian')])
  rec.bounds('curve y^2 = x^3 + a x + b with %s, b symbolic over an ordered '
             'field; P, Q arbitrary curve points or infinity, Q possibly '
             'equal / opposite to P; Jacobian inputs with arbitrary non-zero '
             'Z' % ('a = -3' if a_minus3 else 'a symbolic'))
  cexs = []
  done = 0
  shapes = ['inf', 'free', ('eq', 0), ('neg', 0)]
  for sp, sq in itertools.product(['inf', 'free'], shapes):

    def run(e, sp=sp, sq=sq):
      a = -3 if a_minus3 else rvar(e, 'a')
      b = rvar(e, 'b')
      c = _abstract_curve(ec_util, a, b)
      P = _sym_point(e, c, 'P', sp, [])
      Q = _sym_point(e, c, 'Q', sq, [P])
      z1, z2 = rvar(e, 'z1'), rvar(e, 'z2')
      e.assume(z1.t != 0)
      e.assume(z2.t != 0)

      def jac(Pt, z):
        if Pt == INF:
          return (z * z, z * z * z, 0)
        return (Pt[0] * z * z, Pt[1] * z * z * z, z)

      e.notes.update(c=c, P=P, Q=Q)
      out = {}
      out['add'] = c.Add(P, Q)
      out['sub'] = c.Subtract(P, Q)
      out['dbl'] = c.Double(P)
      out['neg'] = c.Negate(P)
      out['oncurve'] = c.OnCurve(out['add'])
      out['addj'] = c.AddJacobian(jac(P, z1), jac(Q, z2))
      out['dblj'] = c.DoubleJacobian(jac(P, z1))
      out['toaff'] = c.JacobianToAffine(out['addj'])
      out['tojac'] = c.AffineToJacobian(P)
      return out

    with stubs.patched(ec_util, gmpy=stubs.GMPY):
      for p in pysym.explore(run, max_paths=400, feas_timeout_ms=5000):
        e = p.eng
        rec.path(p.kind)
        if p.kind == 'abort':
          rec.inconclusive('path aborted: %s' % p.value)
          continue
        if p.kind == 'raise':
          r, m = e.feasible()
          if r == 'sat':
            cexs.append(('raises %r' % (p.value,), inputs_of(e, m)))
          elif r != 'unsat':
            rec.inconclusive('exception path undecided %r' % (p.value,))
          continue
        c, P, Q = e.notes['c'], e.notes['P'], e.notes['Q']
        o = p.value
        negQ = INF if Q == INF else (Q[0], -Q[1])
        _prove(rec, e, _law_add(c, P, Q, o['add']), 'Add', cexs, 'Add')
        _prove(rec, e, _law_add(c, P, negQ, o['sub']), 'Subtract', cexs,
               'Subtract')
        _prove(rec, e, _law_add(c, P, P, o['dbl']), 'Double', cexs, 'Double')
        _prove(rec, e, _pt_eq(o['neg'], INF if P == INF else (P[0], -P[1])),
               'Negate', cexs, 'Negate')
        _prove(rec, e, pysym.sbool(o['oncurve']) if not isinstance(
            o['oncurve'], bool) else z3.BoolVal(o['oncurve']),
               'sum on curve', cexs, 'OnCurve')
        # Jacobian results represent the affine results
        _prove(rec, e, _jac_affine_goal(c, o['addj'], o['add']), 'AddJacobian',
               cexs, 'AddJacobian')
        _prove(rec, e, _jac_affine_goal(c, o['dblj'], o['dbl']),
               'DoubleJacobian', cexs, 'DoubleJacobian')
        _prove(rec, e, _pt_eq(o['toaff'], o['add']), 'JacobianToAffine', cexs,
               'JacobianToAffine')
        _prove(rec, e, _jac_affine_goal(c, o['tojac'], P), 'AffineToJacobian',
               cexs, 'AffineToJacobian')
        done += 1
  rec.sample(dict(fn='affine+jacobian', a_minus3=a_minus3, paths=done))
  rec.reach(1, 1 if done else 0)
  _report(rec, cexs, 'affine')


def batch_ops(rec, seed, k, fn):
  pb, ec_util = _mods()
  rec.functions('paranoid_crypto.lib.ec_util:EcCurve.%s' % fn,
                'paranoid_crypto.lib.ec_util:EcCurve.BatchInverse')
  rec.bounds('%s on lists of %d points, each infinity / a free curve point / '
             'equal or opposite to the first argument or an earlier element '
             '(every shape combination); symbolic a, b over an ordered field'
             % (fn, k))
  cexs = []
  done = 0
  elem_shapes = ['inf', 'free', ('eq', 'p'), ('neg', 'p')]
  for shapes in itertools.product(elem_shapes, repeat=k):
    for ps in (['free', 'inf'] if fn != 'BatchDouble' else ['free']):

      def run(e, shapes=shapes, ps=ps):
        a, b = rvar(e, 'a'), rvar(e, 'b')
        c = _abstract_curve(ec_util, a, b)
        P = _sym_point(e, c, 'P', ps, [])
        pts = []
        for i, sh in enumerate(shapes):
          if isinstance(sh, tuple):
            if P == INF:
              pts.append(INF)
            elif sh[0] == 'eq':
              pts.append(P)
            else:
              pts.append((P[0], -P[1]))
          else:
            pts.append(_sym_point(e, c, 'Q%d' % i, sh, []))
        e.notes.update(c=c, P=P, pts=pts)
        if fn == 'BatchAdd':
          return c.BatchAdd(P, list(pts))
        if fn == 'BatchAddX':
          return c.BatchAddX(P, list(pts))
        if fn == 'BatchAddSubtractX':
          return c.BatchAddSubtractX(P, list(pts))
        if fn == 'BatchDouble':
          return c.BatchDouble(list(pts))
        if fn == 'BatchAddList':
          return c.BatchAddList([P] * len(pts), list(pts))
        if fn == 'BatchJacobianToAffine':
          zs = [rvar(e, 'z%d' % i) for i in range(len(pts))]
          for z in zs:
            e.assume(z.t != 0)
          js = [(z * z, z * z * z, 0) if q == INF else
                (q[0] * z * z, q[1] * z * z * z, z) for q, z in zip(pts, zs)]
          return (c.BatchJacobianToAffine(list(js)),
                  c.BatchJacobianToX(list(js)))
        raise ValueError(fn)

      with stubs.patched(ec_util, gmpy=stubs.GMPY):
        for p in pysym.explore(run, max_paths=400, feas_timeout_ms=5000):
          e = p.eng
          rec.path(p.kind)
          if p.kind == 'abort':
            rec.inconclusive('path aborted: %s' % p.value)
            continue
          if p.kind == 'raise':
            r, m = e.feasible()
            if r == 'sat':
              cexs.append(('raises %r' % (p.value,), inputs_of(e, m)))
            elif r != 'unsat':
              rec.inconclusive('exception path undecided %r' % (p.value,))
            continue
          c, P, pts = e.notes['c'], e.notes['P'], e.notes['pts']
          res = p.value
          if fn in ('BatchAdd', 'BatchAddList'):
            for q, r_ in zip(pts, res):
              _prove(rec, e, _law_add(c, P, q, r_), fn, cexs, fn)
          elif fn == 'BatchDouble':
            for q, r_ in zip(pts, res):
              _prove(rec, e, _law_add(c, q, q, r_), fn, cexs, fn)
          elif fn in ('BatchAddX', 'BatchAddSubtractX'):
            lists = [res] if fn == 'BatchAddX' else list(res)
            for li, lst in enumerate(lists):
              for q, xr in zip(pts, lst):
                qq = q if li == 0 or q == INF else (q[0], -q[1])
                # exists y: (xr, y) = P + qq : use the law with a fresh y
                if xr is None:
                  g = _law_add(c, P, qq, INF)
                else:
                  yv = z3.Real('y_witness_%d' % id(xr))
                  # the sum's x-coordinate: eliminate y via the law for x only
                  g = _law_x(c, P, qq, xr)
                _prove(rec, e, g, fn, cexs, fn)
          else:
            aff, xs = res
            for q, r_, x_ in zip(pts, aff, xs):
              _prove(rec, e, _pt_eq(r_, q), fn, cexs, fn)
              _prove(rec, e, z3.BoolVal(x_ is None) if q == INF else
                     (pysym._to_sreal(x_).t == pysym._to_sreal(q[0]).t
                      if x_ is not None else z3.BoolVal(False)),
                     'BatchJacobianToX', cexs, 'BatchJacobianToX')
          done += 1
  rec.sample(dict(fn=fn, k=k, paths=done))
  rec.reach(1, 1 if done else 0)
  _report(rec, cexs, fn)


def _law_x(c, P, Q, xr):
  """x-coordinate of P + Q equals xr (P, Q on the curve, sum not infinity)."""
  if P == INF:
    return z3.BoolVal(Q != INF) if Q == INF else (
        pysym._to_sreal(xr).t == pysym._to_sreal(Q[0]).t)
  if Q == INF:
    return pysym._to_sreal(xr).t == pysym._to_sreal(P[0]).t
  x1, y1 = pysym._to_sreal(P[0]).t, pysym._to_sreal(P[1]).t
  x2, y2 = pysym._to_sreal(Q[0]).t, pysym._to_sreal(Q[1]).t
  a = pysym._to_sreal(c.a).t
  x3 = pysym._to_sreal(xr).t
  dx, dy = x1 - x2, y1 - y2
  num, den = 3 * x1 * x1 + a, 2 * y1
  return z3.And(
      z3.Implies(z3.And(x1 == x2, y1 == -y2), z3.BoolVal(False)),
      z3.Implies(x1 != x2, x3 * dx * dx == dy * dy - (x1 + x2) * dx * dx),
      z3.Implies(z3.And(x1 == x2, y1 == y2, y1 != 0),
                 x3 * den * den == num * num - 2 * x1 * den * den))


def _report(rec, cexs, what):
  seen = set()
  for tag, cex in cexs:
    key = tag.split(' ')[0]
    if key in seen:
      continue
    seen.add(key)
    bad, detail = replay_toy()
    rec.replayed()
    rec.violation('ec_util.EcCurve.' + (key if key != 'raises' else what),
                  'group_law', '%s: %s' % (tag, detail),
                  {k: str(v) for k, v in cex.items()},
                  dict(module='harness.props.c11', function='replay_toy_cmd',
                       args={}), bad)
    if len(seen) >= 3:
      break


# ---------------------------------------------------------------------------
# toy curves: exhaustive-by-solver on small prime fields, and the concrete
# differential oracle used to confirm counterexamples


TOY = [
    # (p, a, b) with prime group order (computed and checked at run time)
    (23, 1, 4), (31, -3, 9), (43, 0, 7), (61, 5, 3), (101, -3, 4),
    (1021, 3, 7),
]


def _toy_points(p, a, b):
  pts = [INF]
  for x in range(p):
    for y in range(p):
      if (y * y - (x * x * x + a * x + b)) % p == 0:
        pts.append((x, y))
  return pts


def _ref_add(p, a, P, Q):
  if P == INF:
    return Q
  if Q == INF:
    return P
  x1, y1 = P
  x2, y2 = Q
  if x1 == x2 and (y1 + y2) % p == 0:
    return INF
  if P == Q:
    lam = (3 * x1 * x1 + a) * pow(2 * y1, -1, p) % p
  else:
    lam = (y1 - y2) * pow(x1 - x2, -1, p) % p
  x3 = (lam * lam - x1 - x2) % p
  return (x3, (lam * (x1 - x3) - y1) % p)


def _ref_mul(p, a, P, k, order_hint=None):
  if k < 0:
    P = INF if P == INF else (P[0], -P[1] % p)
    k = -k
  R = INF
  while k:
    if k & 1:
      R = _ref_add(p, a, R, P)
    P = _ref_add(p, a, P, P)
    k >>= 1
  return R


def _toy_curve(ec_util, p, a, b):
  """A toy EcCurve with a generator of prime order (or None)."""
  import gmpy2  # pylint: disable=g-import-not-at-top
  pts = _toy_points(p, a % p, b % p)
  n = len(pts)
  if not gmpy2.is_prime(n):
    # search a nearby b with prime order
    for b2 in range(1, p):
      pts = _toy_points(p, a % p, b2)
      if gmpy2.is_prime(len(pts)) and (4 * a**3 + 27 * b2 * b2) % p:
        b = b2
        n = len(pts)
        break
    else:
      return None, None
  g = pts[1]
  return ec_util.EcCurve('toy%d' % p, a, b, p, g[0], g[1], n), pts


def replay_toy():
  """Concrete differential oracle: every public point operation of the real
  EcCurve against textbook formulas on toy prime-order curves (all pairs /
  scalars on the smallest, samples on the larger) and edge operands on the
  named curves."""
  pb, ec_util = _mods(fakes=False)
  problems = []
  for (p, a, b) in TOY[:5]:
    c, pts = _toy_curve(ec_util, p, a, b)
    if c is None:
      continue
    a_, n = int(c.a), int(c.n)
    sub = pts if p <= 43 else pts[::3]
    try:
      for P in sub:
        if c.Negate(P) != (INF if P == INF else (P[0], -P[1] % p)):
          problems.append('Negate %r' % (P,))
        if P != INF and P[1] != 0 and tuple(map(int, c.Double(P))) != \
            _ref_add(p, a_, P, P):
          problems.append('Double %r on toy%d' % (P, p))
        for Q in sub:
          want = _ref_add(p, a_, P, Q)
          got = c.Add(P, Q)
          got = INF if got == INF else tuple(map(int, got))
          if got != want:
            problems.append('Add %r %r on toy%d' % (P, Q, p))
          for z1, z2 in ((1, 1), (2, 3), (5, 5)):
            j = lambda Pt, z: (z * z % p, z**3 % p, 0) if Pt == INF else (
                Pt[0] * z * z % p, Pt[1] * z**3 % p, z)
            gj = c.JacobianToAffine(c.AddJacobian(j(P, z1), j(Q, z2)))
            gj = INF if gj == INF else tuple(map(int, gj))
            if gj != want:
              problems.append('AddJacobian %r %r z=(%d,%d) on toy%d' %
                              (P, Q, z1, z2, p))
        for k in list(range(-2 * n - 1, 3 * n + 2)) + [7 * n, 8 * n + 5,
                                                       2**9 - n]:
          want = _ref_mul(p, a_, P, k)
          for nm, fn in (('Multiply', c.Multiply), ('MultiplyAffine',
                                                    c.MultiplyAffine)):
            got = fn(P, k)
            got = INF if got == INF else tuple(map(int, got))
            if got != want:
              problems.append('%s %r * %d on toy%d' % (nm, P, k, p))
        if len(problems) > 5:
          break
      ks = list(range(-2 * n, 2 * n + 1)) + [5 * n + 1, -7 * n - 2]
      got = c.BatchMultiplyG(ks)
      for k, g_ in zip(ks, got):
        g_ = INF if g_ == INF else tuple(map(int, g_))
        if g_ != _ref_mul(p, a_, pts[1], k):
          problems.append('BatchMultiplyG %d on toy%d' % (k, p))
          break
      lst = sub[:6]
      for P in sub[:4]:
        wantl = [_ref_add(p, a_, P, Q) for Q in lst]
        norm = lambda L: [INF if x == INF else tuple(map(int, x)) for x in L]
        if norm(c.BatchAdd(P, list(lst))) != wantl:
          problems.append('BatchAdd on toy%d' % p)
        if [None if w == INF else w[0] for w in wantl] != [
            None if x is None else int(x) for x in c.BatchAddX(P, list(lst))]:
          problems.append('BatchAddX on toy%d' % p)
        if norm(c.BatchAddList([P] * len(lst), list(lst))) != wantl:
          problems.append('BatchAddList on toy%d' % p)
      if p <= 31:
        # all (P, Q1, Q2): batches whose shared inversion mixes two operands
        normx = lambda L: [None if x is None else int(x) for x in L]
        for P in pts:
          for Q1 in pts:
            w1 = _ref_add(p, a_, P, Q1)
            for Q2 in pts:
              wantl = [w1, _ref_add(p, a_, P, Q2)]
              wantx = [None if w == INF else w[0] for w in wantl]
              if norm(c.BatchAdd(P, [Q1, Q2])) != wantl:
                problems.append('BatchAdd(%r, [%r, %r]) on toy%d' %
                                (P, Q1, Q2, p))
              if normx(c.BatchAddX(P, [Q1, Q2])) != wantx:
                problems.append('BatchAddX(%r, [%r, %r]) on toy%d' %
                                (P, Q1, Q2, p))
              if norm(c.BatchAddList([P, P], [Q1, Q2])) != wantl:
                problems.append('BatchAddList([%r]*2, [%r, %r]) on toy%d' %
                                (P, Q1, Q2, p))
              if len(problems) > 5:
                break
            if len(problems) > 5:
              break
          if len(problems) > 5:
            break
        for x1 in [None] + list(range(p)):
          for x2 in [None] + list(range(p)):
            inv = c.BatchInverse([x1, x2])
            for x_, i_ in zip((x1, x2), inv):
              if x_ and (i_ is None or x_ * int(i_) % p != 1):
                problems.append('BatchInverse([%r, %r]) on toy%d' %
                                (x1, x2, p))
          if len(problems) > 5:
            break
      if [INF if x == INF else tuple(map(int, x)) for x in c.BatchDouble(
          [q for q in lst if q == INF or q[1] != 0])] != [
              _ref_add(p, a_, q, q) for q in lst if q == INF or q[1] != 0]:
        problems.append('BatchDouble on toy%d' % p)
    except Exception as ex:  # pylint: disable=broad-except
      problems.append('raised %r on toy%d' % (ex, p))
    if problems:
      break
  if not problems:
    for c in [c for c in ec_util.CURVE_FACTORY.values() if c is not None]:
      n = int(c.n)
      try:
        G = c.g
        for k in (0, 1, 2, -1, n - 1, n, n + 1, 2 * n, -n, 2**(
            n.bit_length() + 1) - n, 255, 256, 257, 2**64 + 1):
          a1 = c.Multiply(G, k)
          a2 = c.BatchMultiplyG([k])[0]
          a3 = c.MultiplyAffine(G, k) if k.bit_length() < 20 or k in (
              n, n - 1) else a1
          if not (a1 == a2 == a3 or (a1 == INF and a2 == INF)):
            problems.append('%s: %d*G differs between Multiply / '
                            'BatchMultiplyG / MultiplyAffine' % (c.name, k))
          if a1 != INF and not c.OnCurve(a1):
            problems.append('%s: %d*G not on curve' % (c.name, k))
        if c.Multiply(G, n) != INF:
          problems.append('%s: n*G != infinity' % c.name)
      except Exception as ex:  # pylint: disable=broad-except
        problems.append('%s raised %r' % (c.name, ex))
  return bool(problems), (problems[0] if problems else
                          'real code agrees with textbook formulas')


def replay_toy_cmd():
  bad, detail = replay_toy()
  print(detail)
  return bad


def toy_field(rec, seed, idx, ops):
  """Integer semantics on a small prime field: symbolic points of the toy
  curve, real code, oracle = reference addition table."""
  pb, ec_util = _mods()
  p, a, b = TOY[idx]
  c, pts = _toy_curve(ec_util, p, a, b)
  rec.functions(*['paranoid_crypto.lib.ec_util:EcCurve.%s' % f for f in ops])
  rec.bounds('toy curve over F_%d of prime order %d: P, Q range over ALL '
             'points incl. infinity (symbolic coordinates); scalars in '
             '[-2n, 2n]' % (p, int(c.n)))
  a_ = int(c.a)
  cexs = []
  done = 0
  finite = [q for q in pts if q != INF]
  WB = 4 * p.bit_length() + 4  # products of four field elements fit

  def member(x, y):
    return z3.Or([z3.And(x == q[0], y == q[1]) for q in finite])

  def table_goal(P, Q, R, fn):
    """R == fn(P, Q) for the symbolic P, Q (INF or (x, y) terms)."""
    alts = []
    Ps = [INF] if P == INF else finite
    Qs = [INF] if Q == INF else finite
    for pi in Ps:
      for qi in Qs:
        want = fn(pi, qi)
        cond = []
        if P != INF:
          cond += [common.TB(P[0], WB) == pi[0], common.TB(P[1], WB) == pi[1]]
        if Q != INF:
          cond += [common.TB(Q[0], WB) == qi[0], common.TB(Q[1], WB) == qi[1]]
        if want == INF:
          res = z3.BoolVal(R == INF)
        elif R == INF:
          res = z3.BoolVal(False)
        else:
          res = z3.And(common.TB(R[0], WB) == want[0],
                       common.TB(R[1], WB) == want[1])
        alts.append(z3.Implies(z3.And(cond) if cond else z3.BoolVal(True),
                               res))
    return z3.And(alts)

  for sp, sq in itertools.product(['inf', 'pt'], repeat=2):

    def run(e, sp=sp, sq=sq):

      def pt(name, sh):
        if sh == 'inf':
          return INF
        x = bvar(e, name + 'x', WB, lo=0, hi=p)
        y = bvar(e, name + 'y', WB, lo=0, hi=p)
        e.assume(member(x.t, y.t))
        return (x, y)

      P, Q = pt('P', sp), pt('Q', sq)
      e.notes.update(P=P, Q=Q)
      out = {}
      if 'Add' in ops:
        out['Add'] = c.Add(P, Q)
      if 'Subtract' in ops:
        out['Subtract'] = c.Subtract(P, Q)
      if 'AddJacobian' in ops:
        out['AddJacobian'] = c.JacobianToAffine(c.AddJacobian(
            c.AffineToJacobian(P), c.AffineToJacobian(Q)))
      if 'Double' in ops:
        out['Double'] = c.Double(P)
      return out

    with stubs.patched(ec_util, gmpy=stubs.GMPY):
      for pth in pysym.explore(run, max_paths=2000, feas_timeout_ms=5000):
        e = pth.eng
        rec.path(pth.kind)
        if pth.kind == 'abort':
          rec.inconclusive('path aborted: %s' % pth.value)
          continue
        if pth.kind == 'raise':
          r, m = e.feasible()
          if r == 'sat':
            cexs.append(('raises %r' % (pth.value,), inputs_of(e, m)))
          elif r != 'unsat':
            rec.inconclusive('exception path undecided %r' % (pth.value,))
          continue
        P, Q = e.notes['P'], e.notes['Q']
        o = pth.value
        add = lambda x, y: _ref_add(p, a_, x, y)
        sub = lambda x, y: _ref_add(p, a_, x, INF if y == INF else
                                    (y[0], -y[1] % p))
        if not common.overflow_free(rec, e, 'toy field'):
          continue
        for nm, fn in (('Add', add), ('Subtract', sub), ('AddJacobian', add)):
          if nm in o:
            _prove(rec, e, table_goal(P, Q, o[nm], fn), nm, cexs, nm)
        if 'Double' in o:
          _prove(rec, e, table_goal(P, INF, o['Double'],
                                    lambda x, y: add(x, x)), 'Double', cexs,
                 'Double')
        done += 1
  rec.sample(dict(curve='F_%d' % p, order=int(c.n), paths=done))
  rec.reach(1, 1 if done else 0)
  _report(rec, cexs, 'toy')


def toy_scalar(rec, seed, idx, fn):
  """Scalar multiplication with a symbolic scalar on a toy curve (the point is
  a concrete generator: the loop forks per scalar bit)."""
  pb, ec_util = _mods()
  p, a, b = TOY[idx]
  c, pts = _toy_curve(ec_util, p, a, b)
  n = int(c.n)
  a_ = int(c.a)
  W = max(n.bit_length() + 6, 16)
  rec.functions('paranoid_crypto.lib.ec_util:EcCurve.%s' % fn)
  rec.bounds('toy curve over F_%d, order %d (%d bits): %s with every scalar '
             'in [-2n-1, 4n+1] (symbolic %d-bit value), base point G and '
             'one other point' % (p, n, n.bit_length(), fn, W))
  cexs = []
  done = 0
  bases = [pts[1], pts[len(pts) // 2]]
  for base in (bases if fn != 'BatchMultiplyG' else bases[:1]):

    def run(e, base=base):
      k = bvar(e, 'k', W, lo=-2 * n - 1, hi=4 * n + 2)
      e.notes['k'] = k
      if fn == 'BatchMultiplyG':
        c._cache = {}
        return c.BatchMultiplyG([k])[0]
      return getattr(c, fn)(base, k)

    with stubs.patched(ec_util, gmpy=stubs.GMPY):
      for pth in pysym.explore(run, max_paths=20000):
        e = pth.eng
        rec.path(pth.kind)
        if pth.kind == 'abort':
          rec.inconclusive('path aborted: %s' % pth.value)
          continue
        r, m = e.feasible()
        if r != 'sat':
          if r != 'unsat':
            rec.inconclusive('path undecided')
          continue
        if pth.kind == 'raise':
          cexs.append(('raises %r' % (pth.value,), inputs_of(e, m)))
          continue
        # the path fixes the scalar's bits: every scalar on the path must give
        # the reference multiple
        k = e.notes['k']
        res = pth.value
        res = INF if res == INF else (res[0], res[1])
        alts = []
        kv = pysym.model_value(m, k)
        want = _ref_mul(p, a_, base, kv)
        # all scalars on this path give the same concrete result; prove the
        # path pins k modulo n-compatible classes by checking every k in range
        ok_terms = []
        for cand in range(-2 * n - 1, 4 * n + 2):
          w = _ref_mul(p, a_, base, cand)
          if res == INF:
            good = w == INF
          elif w == INF:
            good = False
          else:
            good = None
          if good is None:
            cond = z3.And(common.TB(res[0], W) == w[0],
                          common.TB(res[1], W) == w[1]) if any(
                              pysym.is_sym(v) for v in res) else z3.BoolVal(
                                  (int(res[0]), int(res[1])) == w)
          else:
            cond = z3.BoolVal(good)
          ok_terms.append(z3.Implies(k.t == cand, cond))
        _prove(rec, e, z3.And(ok_terms), fn, cexs, fn)
        done += 1
  rec.sample(dict(curve='F_%d' % p, fn=fn, paths=done))
  rec.reach(1, 1 if done else 0)
  _report(rec, cexs, fn)


def named_constants(rec, seed):
  pb, ec_util = _mods(fakes=False)
  import gmpy2  # pylint: disable=g-import-not-at-top
  rec.functions('paranoid_crypto.lib.ec_util:CURVE_FACTORY')
  rec.bounds('ground facts for the nine named curves: non-singular, G on the '
             'curve, coordinates reduced, field and order prime, n*G = '
             'infinity, Hasse bound, cofactor 1')
  bad = []
  cnt = 0
  for cid, c in ec_util.CURVE_FACTORY.items():
    if c is None:
      continue
    p, a, b, n = int(c.mod), int(c.a), int(c.b), int(c.n)
    facts = [
        ('nonsingular', (4 * a**3 + 27 * b * b) % p != 0),
        ('g_on_curve', (c.g[1]**2 - c.g[0]**3 - a * c.g[0] - b) % p == 0),
        ('reduced', 0 <= c.g[0] < p and 0 <= c.g[1] < p),
        ('field_prime', bool(gmpy2.is_prime(p))),
        ('order_prime', bool(gmpy2.is_prime(n))),
        ('order_times_g', c.Multiply(c.g, n) == ec_util.INFINITY),
        ('hasse', (n - p - 1)**2 <= 4 * p),
        ('cofactor', c.h == 1),
    ]
    for nm, ok in facts:
      cnt += 1
      # the verdict is recorded through the solver for uniformity
      s = z3.Solver()
      s.add(z3.Not(z3.BoolVal(bool(ok))))
      if str(s.check()) == 'unsat':
        rec.obligation('proved')
      else:
        bad.append('%s: %s' % (c.name, nm))
  rec.path('ground')
  rec.reach(1, 1)
  rec.replayed(cnt)
  rec.sample(dict(fn='CURVE_FACTORY', facts=cnt))
  for w in bad[:3]:
    rec.violation('ec_util.CURVE_FACTORY', 'constants', w, {}, {}, True)


def jobs(tier, seed):
  thorough = tier == 'thorough'
  out = [Job('affine_jacobian', affine_ops, dict(a_minus3=False),
             timeout=3000, cost=40),
         Job('affine_jacobian_a3', affine_ops, dict(a_minus3=True),
             timeout=3000, cost=40)]
  for fn in ('BatchAdd', 'BatchAddX', 'BatchAddSubtractX', 'BatchDouble',
             'BatchAddList', 'BatchJacobianToAffine'):
    for k in ([1, 2] if not thorough else [1, 2, 3]):
      out.append(Job('%s_k%d' % (fn, k), batch_ops, dict(k=k, fn=fn),
                     timeout=3000, cost=10 * 4**k))
  for idx in ([0, 1] if not thorough else [0, 1]):
    out.append(Job('toy_F%d' % TOY[idx][0], toy_field,
                   dict(idx=idx, ops=['Add', 'Subtract', 'AddJacobian',
                                      'Double']), timeout=3000, cost=60))
  for idx in ([0, 1] if not thorough else [0, 1, 2, 3, 4]):
    for fn in ('Multiply', 'MultiplyAffine'):
      out.append(Job('scalar_%s_F%d' % (fn, TOY[idx][0]), toy_scalar,
                     dict(idx=idx, fn=fn), timeout=3000, cost=30))
  for idx in ([0, 1, 4] if not thorough else [0, 1, 3, 4, 5]):
    out.append(Job('scalar_BatchMultiplyG_F%d' % TOY[idx][0], toy_scalar,
                   dict(idx=idx, fn='BatchMultiplyG'), timeout=3000, cost=50))
  out.append(Job('named_constants', named_constants, {}, timeout=900, cost=5))
  return out
