"""C01 - every reported factor divides the modulus (soundness of factor sites).

Each kernel that produces factors is run on symbolic moduli; at every return /
AttachFactors site z3 must show that the values divide n.
"""
import z3

from harness import common
from harness import pysym
from harness import stubs
from harness.common import T, ivar, bvar, inputs_of
from harness.pysym import SInt, SBits, PathAbort
from harness.runner import Job

OUTSIDE = [
    'moduli wider than the stated widths for the bit-level kernels '
    '(FactorHighAndLowBitsEqual, CheckLowHammingWeight)',
    'values (not divisibility) of LLL / modular-exponentiation results',
    'CheckKeypairDenylist generator (SHA-1/AES): only the p*q == n guard '
    '(generator = arbitrary pair per (seed, size))',
    'string formatting inside AttachFactors for symbolic values (C16 covers '
    'merging on concrete sets)',
]
ASSUMPTIONS = [
    'util.Bytes2Int is exact (C09 round-trip claim) - check-level runs hand '
    'the symbolic modulus over directly',
]


# C18 re-uses the kernel runs with "no feasible exception path" as the claim
TOTALITY = {'on': False}


def _raise_path(rec, e, p, kernel, cexs_raise):
  if not TOTALITY['on']:
    return
  r, m = e.feasible()
  if r == 'sat':
    cexs_raise.append((kernel, repr(p.value), inputs_of(e, m)))
  elif r == 'unsat':
    rec.obligation('proved')
  else:
    rec.inconclusive('exception path undecided: %r' % (p.value,))


def _report_raises(rec, kernel, cexs_raise, call):
  """call(**inputs) runs the real kernel; confirmed if it raises."""
  for kern, exc, cex in cexs_raise[:3]:
    try:
      call(**cex)
      bad = False
    except Exception as ex:  # pylint: disable=broad-except
      bad = True
      exc = repr(ex)
    rec.replayed()
    rec.violation(kernel, 'raises', 'kernel raised %s' % exc, cex,
                  dict(module='harness.props.c18', function='replay_kernel',
                       args=dict(kernel=kernel,
                                 inputs={k: str(v) for k, v in cex.items()})),
                  bad)


def _mods():
  common.lib()
  from paranoid_crypto.lib import rsa_util, ntheory_util, special_case_factoring  # pylint: disable=g-import-not-at-top
  return rsa_util, ntheory_util, special_case_factoring


class HavocFloat:
  """Result of a float power of a symbolic int (value arbitrary)."""


def _patch_pow_float():
  """n ** (1/3) on a symbolic int yields an arbitrary non-negative value."""
  orig = SInt.__pow__

  def powf(self, e, m=None):
    if isinstance(e, float):
      stubs.USED.add('int(x ** (1/3)): arbitrary non-negative integer')
      return HavocFloat()
    return orig(self, e, m)

  SInt.__pow__ = powf
  return orig


def _sym_int(x=0, base=None):
  if isinstance(x, HavocFloat):
    e = pysym.eng()
    t = e.fresh('cuberoot')
    e.assume(t >= 0)
    return SInt(t)
  return stubs.sym_int(x, base)


def _havoc_cf(maxlen):
  """ContinuedFraction -> arbitrary list (len <= maxlen) of integer triples."""

  def cf(a, b):
    stubs.USED.add('ntheory_util.ContinuedFraction: arbitrary list of <= %d '
                   'integer triples (its exactness is C19)' % maxlen)
    e = pysym.eng()
    out = []
    for i in range(maxlen):
      more = e.fresh('cf_more', 'bool')
      if not e.decide(more):
        break
      tr = (e.fresh('cf_q'), e.fresh('cf_r'), e.fresh('cf_t'))
      # convergents of non-negative a, b are non-negative
      e.assume(z3.And(tr[0] >= 0, tr[1] >= 0, tr[2] >= 0))
      out.append(tuple(SInt(t) for t in tr))
    return out

  return cf


def _havoc_lll(rows_max=3):

  def reduce(matrix):
    stubs.USED.add('lll.reduce: arbitrary integer matrix with <= %d rows and '
                   'as many columns (over-approximation)' % rows_max)
    e = pysym.eng()
    ncols = len(matrix[0])
    n = e.concretize(e.fresh('lll_rows'), 'rows') if False else None
    out = []
    for i in range(rows_max):
      if i > 0:
        more = e.fresh('lll_more', 'bool')
        if not e.decide(more):
          break
      out.append([SInt(e.fresh('lll')) for _ in range(ncols)])
    return out

  return reduce


def _divides_goal(vals, n):
  """Every value v has a cofactor: exists k. v*k == n  (checked via n % v)."""
  # we state the product form where available; generic form: n - (n//v)*v == 0
  raise NotImplementedError


def _check_factor_pair(rec, e, n, pair, kernel, site, replay, extra_goal=None,
                       hints=()):
  """pair = (p, q): prove p*q == n; on cex, replay concretely."""
  p, q = pair
  goal = T(p) * T(q) == T(n)
  if extra_goal is not None:
    goal = z3.And(goal, extra_goal)
  r, m, s = e.prove(goal, hints=hints)
  if r == 'proved':
    rec.obligation('proved')
    return None
  if r == 'unknown':
    rec.obligation('unknown', '%s %s' % (kernel, site))
    return None
  return inputs_of(e, m)


# ---------------------------------------------------------------------------
# FermatFactor


def fermat_soundness(rec, seed, K, lo_bits=63):
  rsa_util, _, _ = _mods()
  rec.functions('paranoid_crypto.lib.rsa_util:FermatFactor')
  rec.bounds('n >= 2^%d, unbounded Int; max_steps = %d' % (lo_bits, K))
  cexs = []
  cexs_raise = []
  reach = {}

  def run(e):
    n = ivar(e, 'n', lo=2**lo_bits)
    e.notes['n'] = n
    return rsa_util.FermatFactor(n, K)

  with stubs.patched(rsa_util, gmpy=stubs.GMPY):
    for p in pysym.explore(run):
      e = p.eng
      rec.path(p.kind)
      if p.kind == 'abort':
        rec.inconclusive('path aborted: %s' % p.value)
        continue
      if p.kind == 'raise':
        # exceptions are C18's subject (TOTALITY mode)
        _raise_path(rec, e, p, 'rsa_util.FermatFactor', cexs_raise)
        continue
      if p.value is None:
        cls = 'none'
      else:
        cls = 'factors'
        cex = _check_factor_pair(rec, e, e.notes['n'], p.value,
                                 'rsa_util.FermatFactor', 'return', None)
        if cex:
          cexs.append(cex)
      if cls not in reach:
        r, m = e.feasible()
        if r == 'sat':
          reach[cls] = inputs_of(e, m)
          rec.sample(dict(kernel='FermatFactor', cls=cls,
                          witness=reach[cls], K=K))
  rec.reach(2 if K > 0 else 1, len(reach))
  _report_raises(rec, 'rsa_util.FermatFactor', cexs_raise,
                 lambda n: rsa_util.FermatFactor(int(n), K))
  for cex in cexs[:3]:
    n = cex['n']
    res = rsa_util.FermatFactor(n, K)
    bad = res is not None and res[0] * res[1] != n
    rec.replayed()
    if not bad:
      # the path may depend on an over-approximated stub: stage-2 search over
      # the degenerate moduli families of the property's quantifier
      for nm, n2 in degenerate_moduli():
        res = rsa_util.FermatFactor(n2, K)
        rec.replayed()
        if res is not None and res[0] * res[1] != n2:
          n, bad = n2, True
          break
    rec.violation('rsa_util.FermatFactor', 'return',
                  'returned pair whose product is not n', dict(n=n, K=K),
                  dict(module='harness.props.c01', function='replay_fermat',
                       args=dict(n=str(n), K=K)), bad)
    if bad:
      break


def degenerate_moduli():
  """Moduli >= 2^63 of every degenerate shape named in the property."""
  import gmpy2  # pylint: disable=g-import-not-at-top
  np_ = lambda x: int(gmpy2.next_prime(x))
  out = []
  for b in (64, 65, 100, 128):
    p = np_(2**(b // 2) + 12345)
    q = np_(2**(b - b // 2) + 54321)
    out += [('semiprime%d' % b, p * q), ('prime%d' % b, np_(2**b)),
            ('square%d' % b, np_(2**((b + 1) // 2))**2),
            ('even%d' % b, 2 * np_(2**b)), ('pow2_%d' % b, 2**(b + 1)),
            ('cube%d' % b, np_(2**(b // 3 + 1))**3),
            ('fifth%d' % b, np_(2**(b // 5 + 1))**5),
            ('close%d' % b, p * np_(p + 2)),
            ('3pow', 3**((b * 5) // 8 + 2)),
            ('mixed%d' % b, 9 * np_(2**b)), ('sq_times%d' % b, p * p * q)]
  return out


def replay_fermat(n, K):
  rsa_util, _, _ = _mods()
  n = int(n)
  res = rsa_util.FermatFactor(n, K)
  print('FermatFactor(%d, %d) = %r' % (n, K, res))
  return res is not None and res[0] * res[1] != n


# ---------------------------------------------------------------------------
# generic driver for kernels returning factor lists


def _w_cf(cls):
  def f():
    rsa_util, _, _ = _mods()
    p = 0xfa157ca157ca157ca157ca157ca1647
    q = 0xc1acb1acb1acb1acb1acb1acb1342bb
    import gmpy2  # pylint: disable=g-import-not-at-top
    if cls == 'factors':
      ok, f_ = rsa_util.CheckContinuedFraction(p * q, 2**48)
      return (not ok) and len(f_) == 2
    if cls == 'large_coefficient':
      ok, f_ = rsa_util.CheckContinuedFraction(2**64 + 1, 2**8)
      return (not ok) and not f_
    n = int(gmpy2.next_prime(2**32 + 12345)) * int(gmpy2.next_prime(
        2**32 + 987654))
    ok, f_ = rsa_util.CheckContinuedFraction(n, 2**60)
    return ok and not f_
  return f


def _w_simple(kernel, cls):
  def f():
    rsa_util, _, scf = _mods()
    import gmpy2  # pylint: disable=g-import-not-at-top
    np_ = lambda x: int(gmpy2.next_prime(x))
    if kernel == 'fraction':
      if cls == 'factors':
        return bool(rsa_util.CheckFraction(2587633846162595787377, 511))
      return not rsa_util.CheckFraction(np_(2**32 + 5) * np_(2**33 + 99), 1)
    if kernel == 'pollard':
      p = 2 * 3 * 5 * 7 * 11 * 13 * 17 * 19 * 23 * 29 * 31 * 37 + 1
      while not gmpy2.is_prime(p):
        p += 2 * 3 * 5 * 7 * 11 * 13 * 17 * 19 * 23 * 29 * 31 * 37
      m = 1
      for r in range(2, 200):
        m *= r
      if cls == 'factors':
        w, f_ = rsa_util.Pollardpm1(p * np_(2**40 + 3), m, 2)
        return w and len(f_) == 2
      if cls == 'weak_nofactor':
        p2 = p + 2 * 3 * 5 * 7 * 11 * 13 * 17 * 19 * 23 * 29 * 31 * 37
        while not gmpy2.is_prime(p2):
          p2 += 2 * 3 * 5 * 7 * 11 * 13 * 17 * 19 * 23 * 29 * 31 * 37
        w, f_ = rsa_util.Pollardpm1(p * p2, m, 2)
        return w and not f_
      w, f_ = rsa_util.Pollardpm1(np_(2**32 + 5) * np_(2**33 + 99), m)
      return (not w) and not f_
    if kernel == 'guess':
      p, q = np_(2**40 + 12345), np_(2**41 + 999)
      if cls == 'factors':
        return bool(scf.FactorWithGuess(p * q, p - 2))
      p, q = np_(2**200 + 12345), np_(2**201 + 99999)
      return scf.FactorWithGuess(p * q, 3) is None
    return False
  return f


CONCRETE_WITNESS = {
    'rsa_util.CheckContinuedFraction': {c: _w_cf(c) for c in (
        'ok', 'large_coefficient', 'factors')},
    'rsa_util.CheckFraction': {c: _w_simple('fraction', c) for c in (
        'none', 'factors')},
    'rsa_util.Pollardpm1': {c: _w_simple('pollard', c) for c in (
        'not_weak', 'weak_nofactor', 'factors')},
    'special_case_factoring.FactorWithGuess': {c: _w_simple('guess', c)
                                                for c in ('none', 'factors')},
}


def _kernel_job(rec, kernel, run, classify, replay_fn, replay_name, patches,
                expect_classes, max_paths=20000, path_timeout_ms=30000):
  """run(e) executes the kernel; classify(path) -> (cls, pair|None, n, ok_goal)

  ok_goal: extra z3 goal that must hold on this path (or None).
  """
  cexs = []
  cexs_raise = []
  reach = {}
  import contextlib  # pylint: disable=g-import-not-at-top
  with contextlib.ExitStack() as st:
    for mod, names in patches:
      st.enter_context(stubs.patched(mod, **names))
    for p in pysym.explore(run, max_paths=max_paths):
      e = p.eng
      rec.path(p.kind)
      if p.kind == 'abort':
        rec.inconclusive('path aborted: %s' % p.value)
        continue
      if p.kind == 'raise':
        _raise_path(rec, e, p, kernel, cexs_raise)
        continue
      cls, pair, n, goal = classify(p)
      if pair is not None or goal is not None:
        g = z3.BoolVal(True)
        if pair is not None:
          g = T(pair[0]) * T(pair[1]) == T(n)
        if goal is not None:
          g = z3.And(g, goal)
        r, m, s = e.prove(g, timeout_ms=path_timeout_ms)
        if r == 'proved':
          rec.obligation('proved')
        elif r == 'unknown':
          rec.obligation('unknown', '%s %s' % (kernel, cls))
        else:
          cexs.append((cls, inputs_of(e, m)))
      if cls not in reach and cls in expect_classes:
        # vacuity twin: the path's decisions and contracts are satisfiable
        # (total definitions of // and % cannot make them unsatisfiable)
        r, m, _ = e.check_sat(use_defs=False, timeout_ms=20000)
        if r == 'sat':
          reach[cls] = inputs_of(e, m)
          rec.sample(dict(kernel=kernel, cls=cls, witness=reach[cls]))
  # classes whose (non-linear) path condition the solver could not satisfy
  # in time: a concrete run of the real kernel that reaches the same return
  # site serves as the reachability witness
  # (run unconditionally so the evidence does not depend on solver timing)
  for cls in expect_classes:
    if cls in CONCRETE_WITNESS.get(kernel, {}):
      try:
        if CONCRETE_WITNESS[kernel][cls]():
          rec.replayed()
          if cls not in reach:
            reach[cls] = 'concrete witness through the real kernel'
      except Exception:  # pylint: disable=broad-except
        pass
  rec.reach(len(expect_classes), len(reach))
  _report_raises(rec, kernel, cexs_raise, lambda **kw: replay_fn(**kw))
  for cls, cex in cexs[:3]:
    ok = replay_fn(**cex)
    rec.replayed()
    rec.violation(kernel, cls, 'reported factors do not divide the modulus',
                  cex, dict(module='harness.props.c01', function=replay_name,
                            args={k: str(v) for k, v in cex.items()}), ok)


# ---------------------------------------------------------------------------
# CheckContinuedFraction (loop body over an arbitrary convergent list)


def cf_soundness(rec, seed, bits, cflen):
  rsa_util, ntheory_util, _ = _mods()
  rec.functions('paranoid_crypto.lib.rsa_util:CheckContinuedFraction',
                'paranoid_crypto.lib.ntheory_util:DivmodRounded')
  rec.bounds('n in [2^%d, 2^%d) Int; bound symbolic >= 1; convergent list '
             'havocked, length <= %d' % (bits[0] - 1, bits[-1], cflen))

  def run(e):
    n = ivar(e, 'n', lo=2**(bits[0] - 1), hi=2**bits[-1])
    bound = ivar(e, 'bound', lo=1)
    e.notes['n'] = n
    return rsa_util.CheckContinuedFraction(n, bound)

  def classify(p):
    ok, factors = p.value
    n = p.eng.notes['n']
    if ok is True:
      return 'ok', None, n, z3.BoolVal(len(factors) == 0)
    if len(factors) == 0:
      return 'large_coefficient', None, n, None
    if len(factors) != 2:
      return 'factors', None, n, z3.BoolVal(False)
    g = z3.And(T(factors[0]) > 1, T(factors[0]) < T(n))
    return 'factors', (factors[0], factors[1]), n, g

  def replay(n, bound):
    res = rsa_util.CheckContinuedFraction(int(n), int(bound))
    ok, f = res
    return bool(f) and (len(f) != 2 or f[0] * f[1] != int(n))

  _kernel_job(
      rec, 'rsa_util.CheckContinuedFraction', run, classify, replay,
      'replay_cf',
      [(rsa_util, dict(gmpy=stubs.GMPY)),
       (ntheory_util, dict(ContinuedFraction=_havoc_cf(cflen),
                           gmpy=stubs.GMPY))],
      ['ok', 'large_coefficient', 'factors'])


def replay_cf(n, bound):
  rsa_util, _, _ = _mods()
  ok, f = rsa_util.CheckContinuedFraction(int(n), int(bound))
  print('CheckContinuedFraction ->', ok, f)
  return bool(f) and (len(f) != 2 or f[0] * f[1] != int(n))


# ---------------------------------------------------------------------------
# CheckFraction (lattice havocked)


def fraction_soundness(rec, seed, bits, d0):
  rsa_util, ntheory_util, _ = _mods()
  from paranoid_crypto.lib import lll  # pylint: disable=g-import-not-at-top
  rec.functions('paranoid_crypto.lib.rsa_util:CheckFraction')
  rec.bounds('n in [2^%d, 2^%d) Int; d0 = %d; reduced basis havocked '
             '(<= 3 rows)' % (bits[0] - 1, bits[-1], d0))

  def run(e):
    n = ivar(e, 'n', lo=2**(bits[0] - 1), hi=2**bits[-1])
    e.notes['n'] = n
    return rsa_util.CheckFraction(n, d0)

  def classify(p):
    f = p.value
    n = p.eng.notes['n']
    if len(f) == 0:
      return 'none', None, n, None
    if len(f) != 2:
      return 'factors', None, n, z3.BoolVal(False)
    return 'factors', (f[0], f[1]), n, z3.And(T(f[0]) > 1, T(f[0]) < T(n))

  def replay(n):
    f = rsa_util.CheckFraction(int(n), d0)
    return bool(f) and (len(f) != 2 or f[0] * f[1] != int(n))

  havoc = _havoc_lll()
  _kernel_job(rec, 'rsa_util.CheckFraction', run, classify, replay,
              'replay_fraction',
              [(rsa_util, dict(gmpy=stubs.GMPY,
                               lll=type('L', (), dict(reduce=staticmethod(
                                   havoc)))))],
              ['none', 'factors'])


def replay_fraction(n, d0=1):
  rsa_util, _, _ = _mods()
  f = rsa_util.CheckFraction(int(n), int(d0))
  print('CheckFraction ->', f)
  return bool(f) and (len(f) != 2 or f[0] * f[1] != int(n))


# ---------------------------------------------------------------------------
# Pollardpm1 (modular exponentiation havocked)


def pollard_soundness(rec, seed):
  rsa_util, _, _ = _mods()
  rec.functions('paranoid_crypto.lib.rsa_util:Pollardpm1')
  rec.bounds('n >= 2^63 unbounded, m >= 1, gcd_bound >= 1 symbolic; '
             'pow(a, e, n) = arbitrary residue in [0, n)')

  def sym_pow(a, b, m=None):
    if m is None or not (pysym.is_sym(a) or pysym.is_sym(b) or
                         pysym.is_sym(m)):
      return pow(a, b, m) if m is not None else a**b
    stubs.USED.add('pow(a, e, n): arbitrary residue in [0, n)')
    e = pysym.eng()
    r = e.fresh('powmod')
    e.assume(z3.And(r >= 0, r < T(m)))
    return SInt(r)

  def run(e):
    n = ivar(e, 'n', lo=2**63)
    m = ivar(e, 'm', lo=1)
    gb = ivar(e, 'gcd_bound', lo=1)
    e.notes['n'] = n
    return rsa_util.Pollardpm1(n, m, gb)

  def classify(p):
    weak, f = p.value
    n = p.eng.notes['n']
    if weak is False:
      return 'not_weak', None, n, z3.BoolVal(len(f) == 0)
    if len(f) == 0:
      return 'weak_nofactor', None, n, None
    if len(f) != 2:
      return 'factors', None, n, z3.BoolVal(False)
    return 'factors', (f[0], f[1]), n, z3.And(T(f[0]) > 1, T(f[0]) < T(n))

  def replay(n, m, gcd_bound):
    w, f = rsa_util.Pollardpm1(int(n), int(m), int(gcd_bound))
    return bool(f) and (len(f) != 2 or f[0] * f[1] != int(n))

  _kernel_job(rec, 'rsa_util.Pollardpm1', run, classify, replay,
              'replay_pollard',
              [(rsa_util, dict(gmpy=stubs.GMPY, pow=sym_pow))],
              ['not_weak', 'weak_nofactor', 'factors'])


def replay_pollard(n, m, gcd_bound):
  rsa_util, _, _ = _mods()
  w, f = rsa_util.Pollardpm1(int(n), int(m), int(gcd_bound))
  print('Pollardpm1 ->', w, f)
  return bool(f) and (len(f) != 2 or f[0] * f[1] != int(n))


# ---------------------------------------------------------------------------
# FactorWithGuess / CheckSmallUpperDifferences


def guess_soundness(rec, seed, bits, cflen):
  rsa_util, ntheory_util, scf = _mods()
  rec.functions('paranoid_crypto.lib.special_case_factoring:FactorWithGuess')
  rec.bounds('n in [2^%d, 2^%d) Int; p_0 >= 1 symbolic; cube-root bound '
             'arbitrary; convergents havocked (<= %d)' %
             (bits[0] - 1, bits[-1], cflen))
  orig = _patch_pow_float()

  def run(e):
    n = ivar(e, 'n', lo=2**(bits[0] - 1), hi=2**bits[-1])
    p0 = ivar(e, 'p_0', lo=1)
    e.notes['n'] = n
    return scf.FactorWithGuess(n, p0)

  def classify(p):
    f = p.value
    n = p.eng.notes['n']
    if f is None:
      return 'none', None, n, None
    if len(f) != 2:
      return 'factors', None, n, z3.BoolVal(False)
    return 'factors', (f[0], f[1]), n, z3.And(T(f[0]) > 1, T(f[0]) < T(n))

  def replay(n, p_0):
    f = scf.FactorWithGuess(int(n), int(p_0))
    return bool(f) and (len(f) != 2 or f[0] * f[1] != int(n))

  try:
    _kernel_job(rec, 'special_case_factoring.FactorWithGuess', run, classify,
                replay, 'replay_guess',
                [(scf, dict(gmpy=stubs.GMPY, int=_sym_int, abs=stubs.sym_abs)),
                 (ntheory_util, dict(ContinuedFraction=_havoc_cf(cflen)))],
                ['none', 'factors'])
  finally:
    SInt.__pow__ = orig


def replay_guess(n, p_0):
  _, _, scf = _mods()
  f = scf.FactorWithGuess(int(n), int(p_0))
  print('FactorWithGuess ->', f)
  return bool(f) and (len(f) != 2 or f[0] * f[1] != int(n))


# ---------------------------------------------------------------------------
# FactorHighAndLowBitsEqual on bit-vectors


def highlow_soundness(rec, seed, L, middle_bits, width):
  rsa_util, ntheory_util, _ = _mods()
  rec.functions('paranoid_crypto.lib.rsa_util:FactorHighAndLowBitsEqual',
                'paranoid_crypto.lib.ntheory_util:InverseSqrt2exp',
                'paranoid_crypto.lib.ntheory_util:Inverse2exp')
  rec.bounds('n of exactly %d bits (every value), middle_bits = %d; '
             'bit-vector width %d with no-overflow side conditions' %
             (L, middle_bits, width))
  cexs_raise = []
  cexs = []
  reach = {}

  def run(e):
    n = bvar(e, 'n', width, lo=2**(L - 1), hi=2**L)
    e.notes['n'] = n
    return rsa_util.FactorHighAndLowBitsEqual(n, middle_bits)

  with stubs.patched(rsa_util, gmpy=stubs.GMPY), \
      stubs.patched(ntheory_util, gmpy=stubs.GMPY):
    for p in pysym.explore(run, max_paths=200000):
      e = p.eng
      rec.path(p.kind)
      if p.kind == 'abort':
        rec.inconclusive('path aborted: %s' % p.value)
        continue
      if p.kind == 'raise':
        _raise_path(rec, e, p, 'rsa_util.FactorHighAndLowBitsEqual',
                    cexs_raise)
        continue
      if not common.overflow_free(rec, e, 'FactorHighAndLowBitsEqual'):
        continue
      n = e.notes['n']
      if p.value is None:
        cls = 'none'
      else:
        cls = 'factors'
        x, y = p.value
        W = 2 * width
        X = z3.SignExt(width, common.TB(x, width))
        Y = z3.SignExt(width, common.TB(y, width))
        goal = X * Y == z3.SignExt(width, n.t)
        r, m, s = e.prove(goal)
        if r == 'proved':
          rec.obligation('proved')
        elif r == 'unknown':
          rec.obligation('unknown', 'FactorHighAndLowBitsEqual')
        else:
          cexs.append(inputs_of(e, m))
      if cls not in reach:
        r, m = e.feasible()
        if r == 'sat':
          reach[cls] = inputs_of(e, m)
          rec.sample(dict(kernel='FactorHighAndLowBitsEqual', cls=cls, L=L,
                          witness=reach[cls]))
  rec.reach(2, len(reach))
  _report_raises(rec, 'rsa_util.FactorHighAndLowBitsEqual', cexs_raise,
                 lambda n: rsa_util.FactorHighAndLowBitsEqual(int(n),
                                                              middle_bits))
  for cex in cexs[:3]:
    bad = replay_highlow(cex['n'], middle_bits)
    rec.replayed()
    rec.violation('rsa_util.FactorHighAndLowBitsEqual', 'return',
                  'returned pair whose product is not n', cex,
                  dict(module='harness.props.c01', function='replay_highlow',
                       args=dict(n=str(cex['n']), middle_bits=middle_bits)),
                  bad)


def replay_highlow(n, middle_bits=3):
  rsa_util, _, _ = _mods()
  f = rsa_util.FactorHighAndLowBitsEqual(int(n), int(middle_bits))
  print('FactorHighAndLowBitsEqual ->', f)
  return f is not None and (len(f) != 2 or f[0] * f[1] != int(n))


# ---------------------------------------------------------------------------


def jobs(tier, seed):
  thorough = tier == 'thorough'
  out = []
  for K in ([0, 1, 2, 4, 8] if not thorough else [0, 1, 2, 4, 8, 16, 32]):
    out.append(Job('fermat_K%d' % K, fermat_soundness, dict(K=K),
                   timeout=1200 if thorough else 300, cost=K + 1))
  out.append(Job('cf_loop', cf_soundness,
                 dict(bits=[64] if not thorough else [64, 65],
                      cflen=1),
                 timeout=1800, cost=10))
  for d0 in ([1, 7] if not thorough else [1, 7, 255, 2**31 - 1]):
    out.append(Job('fraction_d%d' % d0, fraction_soundness,
                   dict(bits=[64, 65], d0=d0), timeout=600, cost=5))
  out.append(Job('pollard', pollard_soundness, {}, timeout=300, cost=2))
  out.append(Job('guess', guess_soundness,
                 dict(bits=[64, 65], cflen=1 if not thorough else 2),
                 timeout=900, cost=8))
  for L in ([6, 7, 8] if not thorough else [6, 7, 8, 9, 10, 11]):
    out.append(Job('highlow_L%d' % L, highlow_soundness,
                   dict(L=L, middle_bits=3, width=(5 * L) // 2 + 8),
                   timeout=3000 if thorough else 400, cost=2**(L - 5)))
  from harness import checklevel  # pylint: disable=g-import-not-at-top
  out += checklevel.relational_jobs('C01', ('c01',), tier)
  out += checklevel.rerun_jobs()
  from harness import selftest  # pylint: disable=g-import-not-at-top
  out += [Job('engine_selftest_%s' % w, selftest.validate, dict(which=w),
              timeout=900, cost=5) for w in ('rsa',)]
  return out
