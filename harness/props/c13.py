"""C13 - decision rule of the randomness-suite driver."""
import itertools

import z3

from harness import common
from harness import pysym
from harness import stubs
from harness.common import T, ivar, rvar, inputs_of
from harness.pysym import SInt, SReal, SBool
from harness.runner import Job

OUTSIDE = [
    'statistical clauses: p-values of good generators are not '
    'systematically small; the bundled weak generators fail the documented '
    'tests (no solver meaning)',
    'numerical value of the Fisher combination (igamc, log uninterpreted)',
    'histories longer than 3 runs, more than 2 named sub-tests',
]
ASSUMPTIONS = [
    'util.CombinedPValue is replaced by one uninterpreted function per list '
    'length in the decision-structure jobs (its own structure is a separate '
    'job)',
]


def _mods():
  common.lib()
  from paranoid_crypto.lib.randomness_tests import random_test_suite as rts  # pylint: disable=g-import-not-at-top
  from paranoid_crypto.lib.randomness_tests import util, nist_suite, extended_nist_suite  # pylint: disable=g-import-not-at-top
  return rts, util, nist_suite, extended_nist_suite


_F = {}


def fisher(pvals):
  """Uninterpreted Fisher combination, one function per length."""
  k = len(pvals)
  if k == 0:
    raise ValueError('empty sample')
  f = _F.get(k)
  if f is None:
    f = z3.Function('fisher%d' % k, *([z3.RealSort()] * (k + 1)))
    _F[k] = f
  return SReal(f(*[pysym._to_sreal(p).t for p in pvals]))


def _sym_isinstance(obj, cls):
  if isinstance(obj, (SReal, SInt)) and cls in (float, int):
    return True
  return isinstance(obj, cls)


def _run_history(rec, rts, util, ns, e, nruns, named, names):
  """Builds a TestStructure and runs it nruns times on a symbolic history.
  Returns (ts, history) where history[r] = list of (name, p) or 'skip'."""
  fail = rvar(e, 'fail')
  rep = rvar(e, 'repeat')
  minrep = e.notes['minrep']
  history = []
  script = []
  for r in range(nruns):
    if named:
      res = []
      for nm in names:
        present = common.boolvar(e, 'has_%s_%d' % (nm, r))
        pv = rvar(e, 'p_%s_%d' % (nm, r))
        e.assume(z3.And(pv.t >= 0, pv.t <= 1))
        res.append((nm, present, pv))
      script.append(('named', res))
    else:
      pv = rvar(e, 'p_%d' % r)
      e.assume(z3.And(pv.t >= 0, pv.t <= 1))
      skip = common.boolvar(e, 'skip_%d' % r)
      script.append(('single', pv, skip))
  state = {'r': 0}

  def test(bits, n):
    kind = script[state['r']]
    state['r'] += 1
    if kind[0] == 'single':
      if kind[2]:  # forks
        raise ns.InsufficientDataError('skipped')
      history.append([('result', kind[1])])
      return kind[1]
    out = []
    for nm, present, pv in kind[1]:
      if present:  # forks
        out.append((nm, pv))
    history.append(list(out))
    return out

  test.__name__ = 'StubTest'
  ts = rts.TestStructure(test, [], fail, rep, min_repetitions=minrep)
  return ts, history, fail, rep


def decision_structure(rec, seed, nruns, named, minrep):
  rts, util, ns, ext = _mods()
  rec.functions('paranoid_crypto.lib.randomness_tests.random_test_suite:'
                'TestStructure.Run',
                'paranoid_crypto.lib.randomness_tests.random_test_suite:'
                'TestStructure.Failed')
  names = ['a', 'b']
  rec.bounds('%d runs of a stub test returning %s; p-values, fail and repeat '
             'levels arbitrary reals in [0,1] / R; min_repetitions = %d; '
             'assertions after EVERY run' %
             (nruns, 'a list over the names {a, b}, each present or absent '
              'per run' if named else 'a single float or raising '
              'InsufficientDataError', minrep))
  cexs = []
  reach = 0

  def run(e):
    e.notes['minrep'] = minrep
    ts, history, fail, rep = _run_history(rec, rts, util, ns, e, nruns, named,
                                          names)
    snaps = []
    for r in range(nruns):
      ret = ts.Run(0, 100)
      snaps.append(dict(ret=ret, finished=ts.finished,
                        state=dict(ts.state), runs=ts.runs,
                        pvals={k: list(v) for k, v in ts.p_values.items()},
                        failed=ts.Failed(), nhist=len(history)))
    e.notes.update(ts=ts, history=history, fail=fail, rep=rep, snaps=snaps)
    return snaps

  with stubs.patched(util, CombinedPValue=fisher), \
      stubs.patched(rts, isinstance=_sym_isinstance, logging=common.QUIET):
    for p in pysym.explore(run, max_paths=20000):
      e = p.eng
      rec.path(p.kind)
      if p.kind != 'return':
        r, m = e.feasible()
        if r == 'sat':
          cexs.append(('raises %r' % (p.value,), inputs_of(e, m)))
        elif r != 'unsat':
          rec.inconclusive('path undecided')
        continue
      hist, fail, rep = e.notes['history'], e.notes['fail'], e.notes['rep']
      goals = []
      for r_i, snap in enumerate(p.value):
        h = hist[:snap['nhist']]
        skipped = snap['nhist'] < r_i + 1
        # p-values per name so far
        per = {}
        for run_ in h:
          for nm, pv in run_:
            per.setdefault(nm, []).append(pv)
        any_und = z3.BoolVal(False)
        any_failed = z3.BoolVal(False)
        for nm, ps in per.items():
          comb = fisher(ps).t
          repc = fisher([rep] * len(ps)).t
          is_failed = comb < fail.t
          is_passed = z3.And(z3.Not(is_failed), repc < comb)
          st = snap['state'].get(nm)
          want_failed = z3.BoolVal(st == rts.State.FAILED)
          want_passed = z3.BoolVal(st == rts.State.PASSED)
          want_und = z3.BoolVal(st == rts.State.UNDECIDED)
          goals.append(('state_failed', want_failed == is_failed))
          goals.append(('state_passed', want_passed == is_passed))
          goals.append(('state_undecided',
                        want_und == z3.And(z3.Not(is_failed),
                                           z3.Not(is_passed))))
          any_und = z3.Or(any_und, z3.And(z3.Not(is_failed),
                                          z3.Not(is_passed)))
          any_failed = z3.Or(any_failed, is_failed)
          goals.append(('recorded_pvalues', z3.And(
              [T(a) == T(b_) for a, b_ in zip(snap['pvals'].get(nm, []), ps)]
              + [z3.BoolVal(len(snap['pvals'].get(nm, [])) == len(ps))])))
        goals.append(('no_phantom_subtests', z3.BoolVal(
            set(snap['state']) == set(per))))
        if skipped:
          goals.append(('skipped_finishes', z3.BoolVal(
              snap['finished'] is True and snap['ret'] is True)))
        else:
          want_fin = z3.And(z3.Not(any_und),
                            z3.BoolVal(snap['runs'] >= minrep))
          goals.append(('finished_rule',
                        pysym.sbool(snap['finished']) == want_fin))
          # weaker form that survives known finding F8: restricted to the
          # sub-tests reported by the latest run
          present = {nm for nm, _ in h[-1]} if h else set()
          und_present = z3.BoolVal(False)
          for nm, ps in per.items():
            if nm in present:
              comb = fisher(ps).t
              repc = fisher([rep] * len(ps)).t
              und_present = z3.Or(und_present, z3.And(
                  z3.Not(comb < fail.t), z3.Not(repc < comb)))
          goals.append(('finished_rule_present', pysym.sbool(
              snap['finished']) == z3.And(
                  z3.Not(und_present), z3.BoolVal(snap['runs'] >= minrep))))
          goals.append(('run_returns_finished',
                        pysym.sbool(snap['ret']) == pysym.sbool(
                            snap['finished'])))
        goals.append(('failed_rule', pysym.sbool(snap['failed']) == any_failed))
        if skipped:
          break
      for name, g in goals:
        g = z3.simplify(g)
        if z3.is_true(g):
          rec.obligation('proved')
          continue
        r, m, _ = e.prove(g)
        if r == 'proved':
          rec.obligation('proved')
        elif r == 'unknown':
          rec.obligation('unknown', 'decision ' + name)
        else:
          cexs.append((name, inputs_of(e, m)))
      if reach == 0:
        r, m = e.feasible()
        if r == 'sat':
          reach = 1
          rec.sample(dict(fn='TestStructure.Run', runs=nruns, named=named,
                          witness={k: str(v) for k, v in inputs_of(
                              e, m).items()}))
  rec.reach(1, reach)
  seen = set()
  for name, cex in cexs:
    if name in seen:
      continue
    seen.add(name)
    bad, tags, detail = replay_decision(cex, nruns, named, minrep)
    rec.replayed()
    if not bad:
      # the Fisher combination is uninterpreted in the symbolic run: search a
      # grid of concrete histories with the real CombinedPValue (stage 2)
      bad, tags, detail, cex = grid_search(nruns, named, minrep)
      rec.replayed()
    rec.violation('random_test_suite.TestStructure.Run', name.split(' ')[0],
                  detail, {k: str(v) for k, v in cex.items()},
                  dict(module='harness.props.c13',
                       function='replay_decision_cmd',
                       args=dict(cex={k: str(v) for k, v in cex.items()},
                                 nruns=nruns, named=named, minrep=minrep)),
                  bad, tags=tags)
    if len(seen) >= 4:
      break


def _fr(v):
  from fractions import Fraction  # pylint: disable=g-import-not-at-top
  if isinstance(v, (tuple, list)):
    return Fraction(int(v[0]), int(v[1]))
  if isinstance(v, str):
    if v.startswith('('):
      a, b_ = v.strip('()').split(',')
      return Fraction(int(a), int(b_))
    if v in ('True', 'False'):
      return v == 'True'
    return Fraction(v)
  return v


def replay_decision(cex, nruns, named, minrep):
  """Replays the history on the real TestStructure with a monotone stand-in
  for the Fisher combination (the product of the p-values, compared level by
  level) is NOT available: instead the real CombinedPValue is used and the
  expected states are recomputed from the definition with it."""
  rts, util, ns, ext = _mods()
  vals = {k: _fr(v) for k, v in cex.items()}
  fail = float(vals.get('fail', 0))
  rep = float(vals.get('repeat', 0))
  names = ['a', 'b']
  script = []
  for r in range(nruns):
    if named:
      script.append([(nm, float(vals.get('p_%s_%d' % (nm, r), 0.5)))
                     for nm in names
                     if vals.get('has_%s_%d' % (nm, r), False) is True])
    else:
      script.append(None if vals.get('skip_%d' % r, False) is True else
                    float(vals.get('p_%d' % r, 0.5)))
  st = {'r': 0}

  def test(bits, n):
    x = script[st['r']]
    st['r'] += 1
    if x is None:
      raise ns.InsufficientDataError('skip')
    return x

  test.__name__ = 'StubTest'
  ts = rts.TestStructure(test, [], fail, rep, min_repetitions=minrep)
  per = {}
  tags = []
  for r in range(nruns):
    try:
      ret = ts.Run(0, 100)
    except Exception as ex:  # pylint: disable=broad-except
      return True, ['raises'], 'Run raised %r' % (ex,)
    x = script[r]
    if x is None:
      if not (ret and ts.finished):
        return True, [], 'skipped test not finished'
      break
    for nm, pv in ([('result', x)] if not isinstance(x, list) else x):
      per.setdefault(nm, []).append(pv)
    und = False
    for nm, ps in per.items():
      comb = util.CombinedPValue(ps)
      if comb < fail:
        want = rts.State.FAILED
      elif util.CombinedPValue([rep] * len(ps)) < comb:
        want = rts.State.PASSED
      else:
        want = rts.State.UNDECIDED
        und = True
      if ts.state.get(nm) != want:
        return True, tags, ('run %d: sub-test %r is %s, rule says %s '
                            '(p-values %r, fail %r, repeat %r)' %
                            (r + 1, nm, ts.state.get(nm), want, ps, fail, rep))
    want_fin = (not und) and ts.runs >= minrep
    if bool(ts.finished) != want_fin or bool(ret) != want_fin:
      present = {nm for nm, _ in x} if isinstance(x, list) else {'result'}
      stale = [nm for nm in per if nm not in present and
               ts.state.get(nm) == rts.State.UNDECIDED]
      if stale and ts.finished:
        tags.append('undecided_subtest_absent_in_last_run')
      return True, tags, ('run %d: finished=%r but the rule gives %r '
                          '(states %r)' % (r + 1, ts.finished, want_fin,
                                           dict(ts.state)))
    anyf = any(s == rts.State.FAILED for s in ts.state.values())
    if ts.Failed() != anyf:
      return True, tags, 'Failed() disagrees with the states'
  return False, tags, 'history replays without deviation'


def grid_search(nruns, named, minrep):
  grid = [0.0, 1e-12, 0.004, 0.0087, 0.5, 1.0]
  names = ['a', 'b']
  if named:
    per_run = list(itertools.product([None] + grid, repeat=len(names)))
  else:
    per_run = [(g,) for g in grid] + [('skip',)]
  for hist in itertools.product(per_run, repeat=nruns):
    cex = {'fail': '1/1000000000', 'repeat': '1/100'}
    for r, run_ in enumerate(hist):
      if named:
        for nm, v in zip(names, run_):
          cex['has_%s_%d' % (nm, r)] = 'True' if v is not None else 'False'
          cex['p_%s_%d' % (nm, r)] = repr(v if v is not None else 0.5)
      else:
        cex['skip_%d' % r] = 'True' if run_[0] == 'skip' else 'False'
        cex['p_%d' % r] = repr(run_[0] if run_[0] != 'skip' else 0.5)
    bad, tags, detail = replay_decision(cex, nruns, named, minrep)
    if bad and 'undecided_subtest_absent_in_last_run' not in tags:
      return bad, tags, detail, cex
  return False, [], 'no concrete history deviates', {}


def replay_decision_cmd(cex, nruns, named, minrep):
  bad, tags, detail = replay_decision(cex, nruns, named, minrep)
  print(detail, tags)
  return bad


# ---------------------------------------------------------------------------
# CombinedPValue structure


def combined_pvalue(rec, seed, k):
  rts, util, ns, ext = _mods()
  from harness.props import c12  # pylint: disable=g-import-not-at-top
  rec.functions('paranoid_crypto.lib.randomness_tests.util:CombinedPValue')
  rec.bounds('lists of %d arbitrary p-values in [0, 1]; log / igamc '
             'uninterpreted' % k)
  cexs = []
  done = 0
  orig = c12._float_ops()
  try:

    def run(e):
      ps = [rvar(e, 'p%d' % i) for i in range(k)]
      for p_ in ps:
        e.assume(z3.And(p_.t >= 0, p_.t <= 1))
      e.notes['ps'] = ps
      with stubs.patched(util, math=c12._Math,
                         Igamc=lambda a, x: c12._uf_call('igamc', a, x),
                         sum=_sym_sum):
        return util.CombinedPValue(list(ps))

    for p in pysym.explore(run, max_paths=2000):
      e = p.eng
      rec.path(p.kind)
      ps = [x.t for x in e.notes['ps']]
      if p.kind != 'return':
        ok = isinstance(p.value, ValueError) and k == 0
        if not ok:
          r, m = e.feasible()
          if r == 'sat':
            cexs.append(inputs_of(e, m))
        else:
          rec.obligation('proved')
        done += 1
        continue
      res = pysym._to_sreal(p.value).t
      if k == 1:
        want = res == ps[0]
      else:
        anyzero = z3.Or([x == 0 for x in ps])
        lg = c12.uf('log')
        s = z3.RealVal(0)
        for x in ps:
          s = s + (-lg(x))
        want = z3.If(anyzero, res == 0,
                     res == c12.uf('igamc', 2)(z3.RealVal(k), s))
      r, m, _ = e.prove(want)
      if r == 'proved':
        rec.obligation('proved')
      elif r == 'unknown':
        rec.obligation('unknown', 'CombinedPValue')
      else:
        cexs.append(inputs_of(e, m))
      done += 1
  finally:
    pysym._to_sreal = orig
  rec.sample(dict(fn='CombinedPValue', k=k, paths=done))
  rec.reach(1, 1 if done else 0)
  for cex in cexs[:2]:
    vals = [float(_fr(cex['p%d' % i])) for i in range(k)]
    bad = replay_combined(vals)
    rec.replayed()
    rec.violation('randomness_tests.util.CombinedPValue', 'structure',
                  'not Fisher\'s combination', dict(pvalues=vals),
                  dict(module='harness.props.c13', function='replay_combined',
                       args=dict(pvalues=vals)), bad)


def _sym_sum(xs, start=0):
  r = start
  for x in xs:
    r = r + x
  return r


def replay_combined(pvalues):
  import math  # pylint: disable=g-import-not-at-top
  rts, util, ns, ext = _mods()
  pvalues = [float(x) for x in pvalues]
  # the counterexample, and the same list with each entry replaced by the
  # boundary values 0 and 1 (the solver's model may sit strictly inside)
  family = [list(pvalues)]
  for i in range(len(pvalues)):
    for v in (0.0, 1.0, 5e-324, 1e-300):
      f = list(pvalues)
      f[i] = v
      family.append(f)
  bad = False
  for pv in family:
    try:
      got = util.CombinedPValue(list(pv))
    except ValueError:
      if len(pv) != 0:
        bad = True
      continue
    if len(pv) == 1:
      want = pv[0]
    elif min(pv) == 0:
      want = 0
    else:
      want = util.Igamc(len(pv), sum(-math.log(p) for p in pv))
    if (want == 0 and got != 0) or abs(got - want) > 1e-9 * abs(want):
      print('CombinedPValue(%r) = %r, Fisher %r' % (pv, got, want))
      bad = True
  if not bad:
    print('matches Fisher on the counterexample family')
  return bad


# ---------------------------------------------------------------------------
# entry points


import contextlib


@contextlib.contextmanager
def _patched_attr(obj, name, value):
  old = getattr(obj, name)
  setattr(obj, name, value)
  try:
    yield
  finally:
    setattr(obj, name, old)


def entry_points(rec, seed, which):
  rts, util, ns, ext = _mods()
  rec.functions('paranoid_crypto.lib.randomness_tests.random_test_suite:%s' %
                which)
  rec.bounds('%s with TESTS replaced by two stub tests returning arbitrary '
             'p-values (one float, one named pair); at most 3 rounds' % which)
  cexs = []
  reach = 0

  def run(e):
    fail = rvar(e, 'fail')
    rep = rvar(e, 'repeat')
    calls = {'source': 0, 't1': 0, 't2': 0}
    pv = {}

    def p(name):
      if name not in pv:
        v = rvar(e, name)
        e.assume(z3.And(v.t >= 0, v.t <= 1))
        pv[name] = v
      return pv[name]

    def t1(bits, n):
      calls['t1'] += 1
      return p('t1_%d' % calls['t1'])

    def t2(bits, n):
      calls['t2'] += 1
      return [('x', p('t2x_%d' % calls['t2'])), ('y', p('t2y_%d' %
                                                       calls['t2']))]

    t1.__name__ = 'StubOne'
    t2.__name__ = 'StubTwo'

    def source(n):
      calls['source'] += 1
      if calls['source'] > 3:
        raise pysym.PathAbort('bound-hit: more than 3 rounds')
      return 0

    e.notes.update(calls=calls, pv=pv, fail=fail, rep=rep)
    structs = []
    origTS = rts.TestStructure

    def mk(*a, **k):
      s = origTS(*a, **k)
      structs.append(s)
      return s

    e.notes['structs'] = structs
    stubs.USED.add('TestStructure.LogState / LogTotal: no-ops (formatting)')
    with stubs.patched(rts, TESTS=[(t1, []), (t2, [])], TestStructure=mk,
                       LogTotal=lambda tests: None), \
        _patched_attr(origTS, 'LogState', lambda self, log_level=1: None):
      if which == 'TestSource':
        return rts.TestSource(source, 100, rep, fail, log_level=0)
      return rts.TestBitString(0, 100, fail, log_level=0)

  with stubs.patched(util, CombinedPValue=fisher), \
      stubs.patched(rts, isinstance=_sym_isinstance, logging=common.QUIET):
    for p in pysym.explore(run, max_paths=20000):
      e = p.eng
      if p.kind == 'abort' and str(p.value).startswith('bound-hit'):
        rec.path('bound-hit')
        continue
      rec.path(p.kind)
      if p.kind != 'return':
        r, m = e.feasible()
        if r == 'sat':
          cexs.append(('raises %r' % (p.value,), inputs_of(e, m)))
        continue
      structs = e.notes['structs']
      fail = e.notes['fail']
      calls = e.notes['calls']
      goals = [('two_structures', z3.BoolVal(len(structs) == 2))]
      any_failed = z3.BoolVal(False)
      for s in structs:
        for nm, ps in s.p_values.items():
          any_failed = z3.Or(any_failed, fisher(ps).t < fail.t)
      goals.append(('returns_some_failed',
                    pysym.sbool(p.value) == any_failed
                    if isinstance(p.value, (bool, SBool)) else
                    z3.BoolVal(False)))
      if which == 'TestBitString':
        goals.append(('each_test_once', z3.BoolVal(
            calls['t1'] == 1 and calls['t2'] == 1)))
      else:
        # every structure is finished when the loop ends, and a finished test
        # is not run again: rounds = max runs
        goals.append(('all_finished', z3.And(
            [pysym.sbool(s.finished) for s in structs])))
        goals.append(('rounds', z3.BoolVal(
            calls['source'] == max(calls['t1'], calls['t2']))))
      for name, g in goals:
        g = z3.simplify(g)
        if z3.is_true(g):
          rec.obligation('proved')
          continue
        r, m, _ = e.prove(g)
        if r == 'proved':
          rec.obligation('proved')
        elif r == 'unknown':
          rec.obligation('unknown', which + ' ' + name)
        else:
          cexs.append((name, inputs_of(e, m)))
      if reach == 0:
        reach = 1
        rec.sample(dict(fn=which, rounds=calls['source']))
  rec.reach(1, reach)
  for name, cex in cexs[:2]:
    rec.replayed()
    bad = replay_entry(which)
    rec.violation('random_test_suite.' + which, name.split(' ')[0],
                  'entry point does not return "some sub-test failed"',
                  {k: str(v) for k, v in cex.items()},
                  dict(module='harness.props.c13', function='replay_entry',
                       args=dict(which=which)), bad)


def replay_entry(which):
  """Concrete: scripted p-values through the real entry points."""
  rts, util, ns, ext = _mods()
  bad = False
  scripts = [
      ([0.5], [(0.5, 0.5)], False),
      ([1e-12], [(0.5, 0.5)], True),
      ([0.5], [(0.5, 1e-12)], True),
      ([0.005, 0.9], [(0.5, 0.5), (0.5, 0.5)], False),
      ([0.005, 1e-10], [(0.5, 0.5), (0.5, 0.5)], True),
  ]
  for s1, s2, want in scripts:
    st = {'a': 0, 'b': 0}

    def t1(bits, n):
      st['a'] += 1
      return s1[min(st['a'], len(s1)) - 1]

    def t2(bits, n):
      st['b'] += 1
      x, y = s2[min(st['b'], len(s2)) - 1]
      return [('x', x), ('y', y)]

    t1.__name__, t2.__name__ = 'StubOne', 'StubTwo'
    old = rts.TESTS
    rts.TESTS = [(t1, []), (t2, [])]
    try:
      if which == 'TestSource':
        got = rts.TestSource(lambda n: 0, 100, 0.01, 1e-9, log_level=0)
      else:
        got = rts.TestBitString(0, 100, 1e-9, log_level=0)
        want = (s1[0] < 1e-9) or min(s2[0]) < 1e-9
    except Exception as ex:  # pylint: disable=broad-except
      print('raised', repr(ex))
      return True
    finally:
      rts.TESTS = old
    if bool(got) != want:
      print(which, s1, s2, '->', got, 'expected', want)
      bad = True
  return bad


# ---------------------------------------------------------------------------
# large matrix ladder (documented: 64, 128, ... while size^2 <= n)


def large_rank_ladder(rec, seed):
  rts, util, ns, ext = _mods()
  rec.functions('paranoid_crypto.lib.randomness_tests.extended_nist_suite:'
                'LargeBinaryMatrixRank')
  rec.bounds('every length n in [0, 2^26) (symbolic): the matrix sizes used '
             'are exactly the powers of two 64, 128, ... with size^2 <= n')
  cexs = []
  done = 0

  def run(e):
    n = ivar(e, 'n', lo=0, hi=2**26)
    e.notes['n'] = n
    sizes = []

    def split(bits, length, m):
      sizes.append((length, m))
      return [0] * m

    e.notes['sizes'] = sizes
    try:
      with stubs.patched(util, SplitSequence=split,
                         BinaryMatrixRank=lambda mtx: len(mtx)):
        out = ext.LargeBinaryMatrixRank(0, n)
      return ('ok', out)
    except ns.InsufficientDataError:
      return ('insufficient', None)

  for p in pysym.explore(run, max_paths=200):
    e = p.eng
    rec.path(p.kind)
    if p.kind != 'return':
      r, m = e.feasible()
      if r == 'sat':
        cexs.append(inputs_of(e, m))
      continue
    n = e.notes['n'].t
    sizes = e.notes['sizes']
    kind, out = p.value
    if kind == 'insufficient':
      goal = n < 64 * 64
    else:
      used = [s[1] for s in sizes]
      goal = z3.BoolVal(all(isinstance(u, int) for u in used))
      goal = z3.And(goal, n >= 64 * 64)
      for j in range(6, 14):
        s = 2**j
        goal = z3.And(goal, z3.BoolVal(s in used) == (s * s <= n))
      goal = z3.And(goal, z3.BoolVal(len(out) == len(used)),
                    z3.BoolVal(all(ln == m * m for ln, m in sizes)))
    r, m, _ = e.prove(goal)
    if r == 'proved':
      rec.obligation('proved')
    elif r == 'unknown':
      rec.obligation('unknown', 'LargeBinaryMatrixRank ladder')
    else:
      cexs.append(inputs_of(e, m))
    done += 1
  rec.sample(dict(fn='LargeBinaryMatrixRank', paths=done))
  rec.reach(1, 1 if done else 0)
  for cex in cexs[:2]:
    bad = replay_ladder(cex['n'])
    rec.replayed()
    rec.violation('extended_nist_suite.LargeBinaryMatrixRank', 'ladder',
                  'matrix sizes used differ from {2^j >= 64 : 4^j <= n}',
                  dict(n=cex['n']),
                  dict(module='harness.props.c13', function='replay_ladder',
                       args=dict(n=cex['n'])), bad)


def replay_ladder(n):
  rts, util, ns, ext = _mods()
  n = int(n)
  want = [s for s in (2**j for j in range(6, 14)) if s * s <= n]
  try:
    out = ext.LargeBinaryMatrixRank((1 << n) // 3, n)
    got = [int(name.split(' ')[0]) for name, _ in out]
  except ns.InsufficientDataError:
    got = None
  print('LargeBinaryMatrixRank n=%d uses sizes %r, expected %r' %
        (n, got, want or None))
  return got != (want or None)


def jobs(tier, seed):
  thorough = tier == 'thorough'
  out = []
  for named in (False, True):
    for nruns in ([1, 2] if not thorough else [1, 2, 3]):
      for minrep in ([0, 2] if not thorough else [0, 1, 2, 3]):
        out.append(Job('decision_%s_r%d_min%d' % ('named' if named else
                                                  'single', nruns, minrep),
                       decision_structure,
                       dict(nruns=nruns, named=named, minrep=minrep),
                       timeout=3000, cost=8**nruns))
  for k in ([0, 1, 2, 3] if not thorough else [0, 1, 2, 3, 4, 5]):
    out.append(Job('combined_pvalue_k%d' % k, combined_pvalue, dict(k=k),
                   timeout=600, cost=2))
  for which in ('TestSource', 'TestBitString'):
    out.append(Job('entry_%s' % which, entry_points, dict(which=which),
                   timeout=3000, cost=50))
  out.append(Job('large_rank_ladder', large_rank_ladder, {}, timeout=600,
                 cost=3))
  return out
