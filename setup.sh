#!/bin/bash
# Builds the overlay interpreter /verif/.venv (offline): /venv's packages
# (gmpy2, fpylll, protobuf, ...) + z3-solver from the wheelhouse.
set -e
cd "$(dirname "$0")"
exec 9>.setup.lock
flock 9
if .venv/bin/python -c "import z3, gmpy2" >/dev/null 2>&1; then
  exit 0
fi
rm -rf .venv
/venv/bin/python -m venv .venv
echo "import site; site.addsitedir('/venv/lib/python3.12/site-packages')" \
  > .venv/lib/python3.12/site-packages/base.pth
PIP_NO_INDEX=1 .venv/bin/pip install -q --no-index \
  --find-links /opt/veriftools/wheels z3-solver jsonschema >/dev/null
.venv/bin/python -c "import z3, gmpy2; print('setup ok: z3', z3.get_version_string())"
