#!/bin/bash
# runs every thorough command once, end to end, with wall times
cd "$(dirname "$0")/.."
for id in C03 C04 C09 C12 C13 C16 C17 C06 C19 C20 C15 C01 C02 C10 C11 C18 C14; do
  s=$(date +%s)
  timeout ${THOROUGH_CAP:-5400} ./check $id --tier thorough > /tmp/thorough_$id.log 2>&1
  rc=$?
  echo "$id exit=$rc wall=$(( $(date +%s) - s ))s  $(grep -c KNOWN-FINDING /tmp/thorough_$id.log) known; $(tail -1 /tmp/thorough_$id.log | cut -c1-150)"
done
