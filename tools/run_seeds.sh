#!/bin/bash
# Runs every seeded change against the quick check of the property it breaks
# (plus the extra checks listed below) and records the outcome in
# seeded/<id>/result.json.  /repo must not be used by anything else meanwhile.
cd "$(dirname "$0")/.."
declare -A EXTRA=( [C17-1]="C10" [C02-1]="C10" [C01-2]="C17" )
for d in seeded/*/; do
  sid=$(basename "$d"); prop=${sid%-*}
  [ -f "$d/RETIRED" ] && continue
  out="["
  for id in $prop ${EXTRA[$sid]:-}; do
    s=$(date +%s)
    log=$(timeout ${SEED_CAP:-2400} tools/mutant.sh "$d/patch.diff" "$id" 2>&1)
    rc=$(echo "$log" | grep -o "exit=[0-9]*" | tail -1 | cut -d= -f2)
    nv=$(echo "$log" | grep -c "^VIOLATION property=")
    jobs=$(echo "$log" | grep "^VIOLATION" | sed 's/.*replay\/[A-Z0-9]*-\(.*\)-[0-9]*\.json/\1/' | sort -u | head -6 | tr '\n' ',' )
    out="$out{\"check\":\"$id\",\"exit\":${rc:-null},\"violation_lines\":$nv,\"jobs\":\"$jobs\",\"wall_s\":$(( $(date +%s) - s ))},"
    echo "$sid vs $id: exit=${rc:-timeout} violations=$nv [$jobs]"
  done
  echo "${out%,}]" > "$d/result.json"
  git -C /repo checkout -- . 2>/dev/null
done
