#!/bin/bash
# tools/mutant.sh <patch-file> <ID> [extra check args] : apply patch to /repo, run check, revert
set -u
patch="$(realpath "$1")"; id="$2"; shift 2
git -C /repo apply "$patch" || { echo "patch does not apply"; exit 9; }
/verif/check "$id" --no-evidence "$@"; rc=$?
git -C /repo checkout -- .
echo "exit=$rc"
exit $rc
