#!/bin/bash
# tools/mutant.sh <patch-file> <ID> [extra check args] : apply patch to /repo, run check, revert (always)
set -u
patch="$(realpath "$1")"; id="$2"; shift 2
if [ -n "$(git -C /repo status --porcelain)" ]; then echo "/repo not clean"; exit 9; fi
trap 'git -C /repo checkout -- . ' EXIT INT TERM
git -C /repo apply "$patch" || { echo "patch does not apply"; exit 9; }
/verif/check "$id" --no-evidence "$@"; rc=$?
echo "exit=$rc"
exit $rc
