#!/usr/bin/env python3
"""Regenerates /verif/MANIFEST.json from the table below."""
import json
import os

VERIF = os.path.dirname(os.path.dirname(os.path.abspath(__file__)))

# id -> (claimed, design_ref, technique, level text, level note)
CHECKS = {
    'C01': (
        True, '5/C01',
        'symbolic execution of the real factoring kernels on z3 Int/BitVec '
        'proxies (pysym); z3 decides p*q == n at every return site',
        'Bounded symbolic model checking of the real Python kernels: for every '
        'modulus inside the stated ranges (unbounded n >= 2^63 for the '
        'algebraic kernels, all n of 6..12 bits for the bit-level one) and '
        'every path, z3 shows that any reported factor pair multiplies to n. '
        'Check level: 14 RSA single checks on two keys (factors recorded => product is n, key weak), also when a weakly '
        'parameterised check object ran on the same key objects before. Soundness needs exhaustiveness over n, which only a solver verdict gives.',
        'stubs: gmpy isqrt/is_square/gcd by exact contract, LLL / pow / cube '
        'root / convergent lists havocked; bounds per job in evidence'),
 'C03': (
        True, '5/C03',
        'symbolic execution of the real BatchGCD/ExtendedProductTree on z3 Int '
        'proxies; per leaf z3 decides the polynomial identity '
        'remainder[v_i:=0] == product of the other distinct values',
        'Bounded symbolic model checking: for every batch size 0..66 (quick) / '
        '0..130 (thorough) of pairwise distinct symbolic moduli, every leaf, '
        'and for every equality pattern of batches up to 4 (5), z3 shows that '
        'the value handed to gcd is congruent to the product of the other '
        'distinct moduli; check-level verdict/bookkeeping for batches 0..2 (3) '
        'with BatchGCD by contract. Tree-shape bugs live at particular sizes, '
        'so every size is decided by the solver.',
        'gmpy.gcd uninterpreted (arguments recorded); Euclid step lemma '
        'discharged in bounded form; quotient witnesses free (any quotient '
        'keeps the congruence)'),
    'C04': (
        True, '5/C04',
        'symbolic execution of the real FermatFactor on z3 Int proxies with '
        'the parametrisation n = (isqrt(n)+1+j)^2 - d^2; z3 shows every path '
        'that misses the pair is infeasible',
        'Bounded symbolic model checking of the Fermat clause: for every odd '
        'n = p*q >= 2^63 (unbounded) whose (p+q)/2 - ceil(sqrt n) equals j, for '
        'each j below the step bound K (K = 8 quick, 24 thorough, plus the last '
        'admissible step for several K), the function returns a pair at a step '
        '<= j; conversely any returned pair lies inside the bound. Clause 4 plumbing: the Storage is asked for the prime size (bits+1)//2 and every top-bit variant of a listed value is tried. '
        'Clauses 2-3 are outside (see DESIGN).',
        'gmpy isqrt/is_square by exact contract; isqrt-uniqueness lemma proved '
        'as a schema; primality not assumed'),
    'C19': (
        True, '5/C19',
        'symbolic execution of the real helpers on z3 BitVec / Int / Real '
        'proxies (pysym); z3 decides the defining congruence, the convergent '
        'recurrences, polynomial identities of the product trees and A*x == b',
        'Bounded symbolic model checking: 2-adic inverse / inverse square '
        'root / square roots for every n with |n| < 2^(2k+4) and k <= 10 (16); '
        'continued fractions with <= 4 (6) quotients over unbounded integers; '
        'rounded division for all a and b >= 1; product trees of 0..17 (33) '
        'unbounded values; pseudo-average for lists of <= 3 (4) residues, '
        'modulus <= 64; linear solver: all paths over an abstract field up '
        'to 3x3 (4x3), integer semantics fully symbolic up to 3x2 and, for '
        'every 3x3 matrix over {-1,0,1} and seeded rank-deficient families '
        'up to 6x4 (8x5), for EVERY integer right-hand side in the column '
        'space.',
        'gmpy f_mod_2exp exact; gmpy.mpq as exact rationals; the field '
        'abstraction assumes exact fraction-free divisions (decided '
        'separately under integer semantics); small_roots and float CDFs '
        'outside'),
    'C20': (
        True, '5/C20',
        'symbolic execution of every RandomBits of the registry on z3 Int '
        'proxies with symbolic seed / entropy bytes (pysym, byte buffers as '
        'lists of byte terms); z3 decides 0 <= result < 2^n, absence of '
        'entropy use under a seed, and equality with reference models',
        'Bounded symbolic model checking: for each of the 32 registered '
        'generators and each n in 1..40 plus word-boundary sizes up to 160 '
        '(thorough: 1..160 and every residue mod 64 near 192 and 1984), for '
        'every non-zero seed and every value of the entropy bytes, the result '
        'lies in [0, 2^n), no exception is raised, and a seeded call never '
        'consults an entropy source; JavaRandom equals the '
        'java.util.Random/BigInteger reference for every 64-bit seed; '
        'TruncLcgRand equals the truncated-LCG stream for byte-multiple output sizes; purity over call histories '
        '(n_b, n_a, n_b) on one generator object for 18 size pairs and every seeded generator.',
        'os.urandom returns arbitrary bytes; shake / numpy / MT19937 arbitrary but the same for the same seed and call index; xor/or/'
        'and on unbounded ints uninterpreted with range axioms; x % 2^k '
        '(k >= 16) abstracted in range jobs; retry loops bounded to one retry; '
        'known findings F5, F7'),
    'C09': (
        True, '5/C09',
        'symbolic execution of HiddenNumberParams with a symbolic group '
        'order, TransformOrderLen / ECDSAValues / PublicPoint on symbolic '
        'byte strings and Int2Bytes/Bytes2Int (pysym); z3 decides '
        'k == a + b*d (mod n) via an explicit quotient and the RFC 6979 '
        'bits2int equalities',
        'Bounded symbolic model checking: the nonce relation for EVERY group '
        'order n > 2 and all r, s, d, k in [1, n-1] (unbounded integers), '
        'also for two curves used one after the other; bits2int for every '
        'named curve, every hash value and 21 (70) hash byte lengths 0..66; '
        'ECDSAValues/PublicPoint on arbitrary byte strings incl. leading '
        'zeros; int/bytes round trips for all x < 2^40 and all byte strings up to 4 (6) bytes; '
        'Hex2Bytes for every hex string of up to 12 (24) digits.',
        'gmpy.invert by contract (inverse exists: n prime assumed); '
        'int.from_bytes/to_bytes modelled on lists of byte terms; fake '
        'protobuf messages generated from paranoid.proto'),
    'C15': (
        True, '5/C15',
        'symbolic execution of the real bit-sequence primitives on z3 '
        'bit-vector proxies (pysym); z3 decides equality with quantifier-free '
        'bit-level definitions',
        'Bounded symbolic model checking: Runs / LongestRunOfOnes / '
        'OverlappingRunsOfOnes / BitCount for every string of 8, 16, 24 (up '
        'to 64) bits; SplitSequence for every string of 16/23/24 (..40) bits '
        'and byte-aligned and unaligned block sizes; FrequencyCount / '
        'SubSequences for every string of 6..9 (12) bits with and without '
        'wrap-around and the 4-bit-stride fast path on 101..107-bit strings '
        'with 8 symbolic bits; Scatter up to 6 (8) bits; both matrix-rank implementations on every 3x3, 4x3, 3x4 (.. 5x4) binary matrix against the subset-XOR counting definition; '
        'Bits (+-1 expansion) for every string of length 0..12 (24).',
        'gmpy.popcount as sum of bits; int.to_bytes/from_bytes on lists of '
        'byte terms; no-overflow side conditions of the chosen widths are '
        'discharged; format / bytes.translate / array modelled for Bits; ReverseBits outside'),
    'C12': (
        True, '5/C12',
        'symbolic execution of the real NIST test functions with symbolic '
        'bit strings / counts / lengths and uninterpreted special functions '
        '(pysym); z3 decides equality of the integer statistics, of the '
        'p-value TERMS with the SP 800-22 formulas, and of the threshold and '
        'parameter rules',
        'Bounded symbolic model checking, split at the first special-function '
        'call: RandomWalk cusum statistics (forward/reverse) for every string '
        'of length 1..9 (13); Frequency, Runs, BlockFrequencyImpl, ChiSquare '
        'as term equalities for all n < 2^30 and all counts; insufficient-'
        'data thresholds and parameter ladders for every n < 2^31; linear-'
        'complexity category arithmetic for every complexity value and 8 '
        '(37) block sizes of both parities against SP 800-22 3.10; Maurer '
        'distances for every block sequence (L = 1, 2); non-overlapping templates up to length 8 (10) and the template-length ladder for every n; '
        'CumulativeSumsPValue equals the SP 800-22 2.13 series term by term for z in {1,2,3,7} (8 values) '
        'and every n <= 14 z (30 z).',
        'erfc/erf/sqrt/log/igamc/BinomialCdf uninterpreted (sqrt with sign '
        'axioms); util.Bits hands over the symbolic +-1 list; float '
        'constants as exact binary rationals; numerics, tables and Spectral '
        'outside'),
    'C13': (
        True, '5/C13',
        'symbolic execution of TestStructure.Run / Failed, TestSource, '
        'TestBitString, CombinedPValue and LargeBinaryMatrixRank on symbolic '
        'p-value histories (pysym, z3 reals, Fisher combination '
        'uninterpreted); z3 decides the state of every sub-test after every '
        'run against the documented rule',
        'Bounded symbolic model checking of the decision rule: histories of '
        '1..2 (3) runs, each returning a single float, raising '
        'InsufficientDataError, or a list over two names that may be present '
        'or absent per run; arbitrary real p-values, fail and repeat levels, '
        'min_repetitions 0..2 (3): FAILED/PASSED/UNDECIDED, finished and '
        'Failed() equal the rule after every run; both entry points return '
        '"some sub-test failed" with two stub tests and <= 3 rounds; '
        'CombinedPValue equals Fisher structurally (k <= 3 (5)); the large '
        'matrix ladder uses exactly the sizes with size^2 <= n for all '
        'n < 2^26. Statistical clauses are outside.',
        'Fisher combination uninterpreted per list length; counterexamples '
        'replayed with the real CombinedPValue (model values, then a grid of '
        'concrete histories); known finding F8'),
    'C16': (
        True, '5/C16',
        'symbolic execution of SetTestResult / GetHighestSeverity / '
        'AttachFactors / _CheckArtifacts / CheckIssuerKey.Check and every '
        'RSA single check on fake protobuf messages with symbolic verdicts '
        'and severities (pysym); z3 decides the bookkeeping invariants after '
        'every call history',
        'Bounded symbolic model checking: histories of 1..2 (3) '
        'SetTestResult calls on fresh and pre-annotated TestInfo (one entry '
        'per name, result = OR, severity = max, weak monotone, version kept); '
        'factor-set union over 3 calls; _CheckArtifacts with 0..3 checks; '
        'CheckIssuerKey for 1..2 (3) signatures with equal or distinct '
        'issuer keys and arbitrary EC verdicts; each RSA single check leaves '
        'exactly one entry with the documented severity, weak iff positive, '
        'return = OR, on the batches [k1,k2], [k2], [k2,k1].',
        'fake messages generated from paranoid.proto (proto3 MergeFrom / '
        'CopyFrom modelled); kernels and CheckAllEC by contract; replays on '
        'real protobuf classes'),
    'C17': (
        True, '5/C17',
        'relational symbolic execution: the real Check of each RSA single '
        'check runs on [k1,k2], [k2] and [k2,k1] in one path with memoised '
        'contract stubs for the numeric kernels; z3 decides equality of '
        'entries and attached factors across the three runs',
        'Bounded symbolic model checking of the plumbing: for 14 RSA single checks (19 constructor variants incl. custom pattern-size lists and '
        'Storage) and symbolic moduli of two different sizes, the verdict, '
        'severity and recorded factors of a key are identical alone, in a '
        'batch, at either position, with the same check object used three times and on fresh check objects (no history); '
        'the three EC single checks on two keys over supported, unknown and binary curve identifiers, and three ECDSA '
        'signature checks on one signature per curve on two curves, alone / after / before the other, each on a fresh object. '
        'EC table history is covered by C10; aggregate GCD plumbing by C03.',
        'kernels are deterministic functions of their arguments (memoised '
        'outcome variables); counterexamples confirmed by a concrete '
        'differential oracle over witness moduli with the real kernels'),
    'C18': (
        True, '5/C18',
        'symbolic execution of checks and kernels with "no feasible '
        'exception path" as the obligation (pysym); each raising path is '
        'decided infeasible by z3 or replayed on the real code',
        'Bounded symbolic model checking of totality: RSA single checks on '
        'batches of 1..2 keys; factoring kernels for all n >= 2^63 (bit-'
        'level ones for 6..7 (9)-bit n); CheckSmallUpperDifferences at every '
        'size class boundary; EC validity / weak-curve / weak-private-key '
        'checks for batches 0..2 over known, binary and undefined curve ids '
        'with coordinates up to 2^530; CheckECKeySmallDifference with '
        'coordinates in [0, 2p); nonce checks with 1, 2, 24 (.., 48) signatures and a havocked lattice reduction, and with batches mixing '
        'unknown, binary-field and supported issuer curves; ground runs of the '
        'entry points on empty batches and degenerate moduli.',
        'lll.reduce / BatchMultiplyG / ExtendedBatchDL / HNP-for-curve by '
        'contract; Cr50 internal sanity branch assumed unreachable; text '
        'rendering of symbolic coordinates is a placeholder'),
    'C11': (
        True, '5/C11',
        'symbolic execution of every public EcCurve point method over (a) an '
        'abstract ordered field with symbolic a, b (z3 QF_NRA, relational '
        'chord-and-tangent law, no inverses) and (b) toy prime fields with '
        'bit-vector coordinates against a reference addition table (pysym)',
        'Bounded symbolic model checking: affine/Jacobian Add, Double, '
        'Subtract, Negate, conversions for arbitrary curve points incl. '
        'infinity, equal and opposite points, arbitrary non-zero Z, a = -3 '
        'shortcut; all batched variants on lists of 1..2 (3) points with '
        'every mixture of special cases next to regular ones; on toy curves '
        'over F_23, F_31 (F_43, F_61): every pair of points; Multiply / '
        'MultiplyAffine / BatchMultiplyG for every scalar in [-2n-1, 4n+1] '
        '(orders 6..7 (10) bits); named-curve constants as ground facts.',
        'field abstraction (x % mod identity, invert = field inverse): '
        'formulas are identities of rational functions, transfer to F_p '
        'assumed and cross-checked on toy fields; counterexamples confirmed by '
        'a concrete differential oracle on toy and named curves'),
    'C14': (
        True, '5/C14',
        'cxxsym: symbolic interpretation of clang\'s JSON AST of '
        'LfsrLengthImpl (both compile-time variants) and LfsrLength over z3 '
        'bit-vectors with state merging; pysym for the Python routine; '
        'miters against a textbook Berlekamp-Massey encoding',
        'Bounded symbolic model checking / translation from the compiler\'s '
        'parse: every sequence of length 0..13 (16) incl. arbitrary garbage '
        'above n: portable C++ = textbook, CLMUL variant = textbook; byte '
        'packing and range check of LfsrLength; Python native = textbook for '
        'every sequence of length <= 10 (13); CLMUL variant = portable variant '
        'on sub-cubes of 6..10 symbolic bits around word and block boundaries '
        'over zero / single-one / all-one / alternating backgrounds for '
        'lengths 64..256 (320), each cube anchored to the textbook algorithm '
        'concretely; LfsrCount by solver enumeration for n <= 8 (10).',
        'clang 14 AST trusted; clmul modelled as 128-bit carry-less product; '
        'interpreter validated against g++ builds of both variants on 300 '
        'seeded sequences per run of the validation script; long sequences '
        'outside the cubes are outside the claim'),
    'C06': (
        True, '5/C06',
        'symbolic execution of the closed-form checks on unbounded integers / '
        'bit-vectors (pysym): size and exponent checks, the ROCA subgroup '
        'test per prime, both IsWeak functions with uninterpreted residue '
        'predicates, EC validity on toy curves, the EC check bodies over all '
        'curve identifiers, and the candidate sequence of the vulnerable '
        'key-pair generator with SHA-1/AES/primality havocked',
        'Bounded symbolic model checking: CheckSizes <=> n < 2^2047 and '
        'CheckExponents <=> e != 65537 for all integers; _HasDiscreteLog <=> '
        'membership in <65537> for every residue modulo each of the 39 '
        'primes; ROCA IsWeak <=> all 39 predicates on n mod p, variant <=> '
        'all 48 QR predicates and not ROCA, for every modulus; QR tables = '
        'Euler criterion; IsValidPublicKey <=> affine point with reduced '
        'coordinates for every pair in [-3, 2p+3) on toy fields; '
        'CheckValidECKey / CheckWeakCurve for every curve id in [-1, 22]; '
        'generate_prime tests v + 31 - v mod 30 and then the increments 6,4,2,4,2,4,6,2; '
        'generate_key follows the forge state machine for every candidate sequence of up to 4 (5) primes '
        'of 8, 16, 1024 bits; CheckOpensslDenylist hashes Modulus=<canonical upper-case hex of n> and asks '
        'the list for RSA-<bits>:<last 20 digits>, verdict = the list answer, for every 64..70-bit modulus '
        'with 0..2 leading zero bytes.',
        'SHA-1 an injective token, Storage answers arbitrary; keypair table look-up outside; the real prime '
        'fields only through toy curves and concrete boundary encodings in '
        'the replay oracle'),
    'C10': (
        True, '5/C10',
        'symbolic execution of the real PointTable / BatchDL / '
        'BatchDLOfDifferences / ExtendedBatchDL on a cyclic-group model of '
        'the curve with symbolic exponents (pysym); z3 decides that every '
        'exponent below the bound is returned',
        'Bounded symbolic model checking of the search index arithmetic: '
        'BatchDL returns e for EVERY 0 <= e < n, for n in 17 sizes up to 40 '
        '(every n <= 96), lists of 1..3 targets, on a fresh curve object and '
        'after 6 histories of earlier BatchDL / BatchDLOfDifferences calls '
        'that leave larger or smaller cached tables (n up to 80 (96)); both '
        'keys of every pair at distance < max_diff are flagged and identical '
        'keys are not (max_diff 2..8 (16), 2..3 keys, history list); every '
        'key w*2^(8j) and every repeated 32-bit word (also negated) is '
        'returned by ExtendedBatchDL on the secp256r1 order and a 72-bit '
        'order with BatchDL by contract.',
        'group-law primitives by contract on exponents mod q (C11); BatchDL '
        'contract inside ExtendedBatchDL with scenario-fixed spurious hits; '
        'counterexamples replayed on real secp256r1 arithmetic'),
    'C02': (
        True, '5/C02',
        'symbolic execution of the filters that stand between the search '
        'code and a recorded result (pysym): BatchDL verification step with a '
        'havocked look-up table, relation strings of BatchDLOfDifferences '
        'captured through their format arguments, ExtendedBatchDL result '
        'mapping, _IssuerDLogs, and the nonce checks with arbitrary guesses',
        'Bounded symbolic model checking of soundness: whatever the table / '
        'lattice / guess producers deliver, a recorded log e satisfies '
        'e*G = P for arbitrary target points (bound 4, 9, 16 (30)); every relation text "key - Q = k*G" holds for the key it is recorded for and Q is another artifact (3 keys + history, exact table); '
        'mixed-curve batches never carry a log of another curve; '
        'ExtendedBatchDL maps indices back so that the value is congruent to '
        'the private key (shifted, repeated, negated words; secp256r1 and '
        '72-bit orders); _IssuerDLogs returns the guess whose point equals '
        'the issuer key for guess lists of 3 and 300 (..1000); a signature '
        'is marked weak only with an attached log d with MulG(d) = issuer '
        'key (1..2 (3) signatures, three check classes).',
        'cyclic-group model of the curve, MulG uninterpreted, lattice '
        'reduction one arbitrary row; Cr50 congruence filter at 256 bits '
        'outside; counterexamples replayed on real secp256r1 arithmetic'),
}

NOT_APPLICABLE = {
    'C05': 'completeness of LLL / heuristic search / p-1 smoothness on '
           '1024..4096-bit moduli: no SMT encoding within reach (DESIGN 6)',
    'C07': 'statement about a probability distribution over random keys; a '
           'solver quantifies over values, not measures (DESIGN 6)',
    'C08': 'completeness of lattice attacks (fpylll LLL on 26..122-dim '
           'lattices): not encodable (DESIGN 6)',
}

PENDING = 'check not built yet in this revision (see DESIGN.md section 5)'


def main():
  props = [json.loads(l) for l in open(os.path.join(VERIF, 'properties.jsonl'))]
  checks = []
  na = []
  for p in props:
    pid = p['id']
    c = CHECKS.get(pid)
    if c and c[0]:
      checks.append(dict(
          property_id=pid,
          quick_cmd='./check %s --tier quick' % pid,
          thorough_cmd='./check %s --tier thorough' % pid,
          evidence_file='evidence/%s.json' % pid,
          replay_cmd_template='./check %s --replay {path}' % pid,
          engine='pysym',
          level_claimed=dict(category='model_checking', text=c[3],
                             design_ref=c[1]),
          level_note=c[4],
          technique=c[2]))
    else:
      na.append(dict(property_id=pid,
                     reason=NOT_APPLICABLE.get(pid, PENDING)))
  m = dict(
      version=1,
      setup_cmd='./setup.sh',
      hooks=dict(
          guard='GOOGLE_PARANOID_CRYPTO_VERIF',
          enable='no source hooks are needed: checks import /repo\'s working '
                 'tree with PYTHONPATH=/repo and patch module namespaces at '
                 'run time',
          baseline_off_cmd='cd /repo && /venv/bin/python -m pytest -ra -q -p '
                           'no:cacheprovider --timeout=900 '
                           '--continue-on-collection-errors',
          source_commits=[],
          add_only=True),
      engines=[
          dict(name='pysym', path='harness/pysym.py',
               serves_properties=[c['property_id'] for c in checks],
               kind_free_text='proxy-based symbolic execution of the real '
                              'Python functions over z3 terms; path-wise '
                              'obligations discharged by z3 5.1; a sample '
                              'of the proved obligations is re-decided by '
                              'the z3 4.8.12 and cvc5 1.0.3 binaries from '
                              'an SMT-LIB2 dump; C14 also interprets the '
                              'clang JSON AST of the C++ kernel '
                              '(harness/cxxsym.py)'),
      ],
      checks=checks,
      not_applicable=na,
      notes='Exit codes: 0 held within bounds; 1 VIOLATION (replayed on the '
            'real code); 3 inconclusive (solver unknown / vacuous harness / '
            'unconfirmed counterexample) - never reported as success.')
  with open(os.path.join(VERIF, 'MANIFEST.json'), 'w') as f:
    json.dump(m, f, indent=1)
  print('claimed:', [c['property_id'] for c in checks])


if __name__ == '__main__':
  main()
