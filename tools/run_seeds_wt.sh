#!/bin/bash
# tools/run_seeds_wt.sh [seed-id ...]   (default: all)
# Like run_seeds.sh, but every seeded change is applied in its own scratch
# worktree of /repo HEAD (tools/mutant_wt.sh, VERIF_REPO), three at a time;
# /repo itself is not touched.  Writes seeded/<id>/result.json.
cd "$(dirname "$0")/.."
declare -A EXTRA=( [C17-1]="C10" [C02-1]="C10" [C01-2]="C17" [C01-4]="C16" )
export EXTRA_STR="$(declare -p EXTRA)"
one() {
  eval "$EXTRA_STR"
  sid=$1; prop=${sid%-*}; d=seeded/$sid
  [ -f "$d/RETIRED" ] && { echo "$sid retired"; return; }
  out="["
  for id in $prop ${EXTRA[$sid]:-}; do
    s=$(date +%s)
    log=$(timeout ${SEED_CAP:-2400} tools/mutant_wt.sh "$d/patch.diff" "$id" 2>&1)
    rc=$(echo "$log" | grep -o "exit=[0-9]*" | tail -1 | cut -d= -f2)
    nv=$(echo "$log" | grep -c "^VIOLATION property=")
    jobs=$(echo "$log" | grep "^VIOLATION" | sed 's/.*replay\/[A-Z0-9]*-\(.*\)-[0-9]*\.json/\1/' | sort -u | head -6 | tr '\n' ',' )
    out="$out{\"check\":\"$id\",\"exit\":${rc:-null},\"violation_lines\":$nv,\"jobs\":\"$jobs\",\"wall_s\":$(( $(date +%s) - s )),\"how\":\"scratch worktree + VERIF_REPO\"},"
    echo "$sid vs $id: exit=${rc:-timeout} violations=$nv [$jobs]"
  done
  echo "${out%,}]" > "$d/result.json"
}
export -f one
if [ $# -gt 0 ]; then list="$*"; else list=$(ls seeded); fi
echo $list | tr ' ' '\n' | xargs -P ${SEED_PAR:-3} -I{} bash -c 'one {}'
