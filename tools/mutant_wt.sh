#!/bin/bash
# tools/mutant_wt.sh <patch-file> <ID> [extra check args]
# Development aid: applies the patch in a scratch worktree of /repo HEAD (not
# in /repo) and runs the check against it via VERIF_REPO; several can run in
# parallel.  The recorded seed table (tools/run_seeds.sh) applies to /repo.
set -u
patch="$(realpath "$1")"; id="$2"; shift 2
wt=$(mktemp -d /tmp/mw_XXXXXX)
trap 'git -C /repo worktree remove --force "$wt" 2>/dev/null; rm -rf "$wt"' EXIT INT TERM
git -C /repo worktree add -q --detach "$wt" HEAD || exit 9
git -C "$wt" apply "$patch" || { echo "patch does not apply"; exit 9; }
VERIF_REPO="$wt" /verif/check "$id" --no-evidence "$@"; rc=$?
echo "exit=$rc"
exit $rc
