#!/bin/bash
# tools/verify_seed.sh <seed-src-dir> <i> <dest-name>
# Confirms a seeded change in a scratch worktree: demo passes unpatched, fails patched,
# baseline suite still has 74 passing tests.  On success stores it under /verif/seeded/<dest-name>/.
src="$1"; i="$2"; dest="$3"
wt=$(mktemp -d /tmp/vs_XXXXXX)
git -C /repo worktree add -q --detach "$wt" HEAD || exit 9
mkdir -p "$wt/_out"; cp "$src"/demo_$i.py "$wt/_out/"
( cd "$wt" && /venv/bin/python _out/demo_$i.py >/dev/null 2>&1 ); rc0=$?
git -C "$wt" apply "$src/patch_$i.diff"; rca=$?
( cd "$wt" && /venv/bin/python _out/demo_$i.py >/dev/null 2>&1 ); rc1=$?
tests=$( cd "$wt" && /venv/bin/python -m pytest -q -p no:cacheprovider --timeout=900 --continue-on-collection-errors 2>&1 | tail -1 )
git -C /repo worktree remove --force "$wt"
echo "$dest: demo_unpatched=$rc0 apply=$rca demo_patched=$rc1 tests=[$tests]"
if [ "$rc0" = 0 ] && [ "$rca" = 0 ] && [ "$rc1" = 1 ] && echo "$tests" | grep -q "74 passed"; then
  d=/verif/seeded/$dest; mkdir -p "$d"
  cp "$src/patch_$i.diff" "$d/patch.diff"; cp "$src/demo_$i.py" "$d/demo.py"
  python3 - "$src/meta_$i.json" "$d/meta.json" "$tests" <<'PY'
import json,sys
m=json.load(open(sys.argv[1]))
m['confirmed_by_me']={'demo_unpatched_exit':0,'demo_patched_exit':1,'baseline_suite':sys.argv[3],
  'how':'tools/verify_seed.sh: scratch worktree of /repo HEAD; demo before/after git apply; full pinned pytest command with the patch applied'}
json.dump(m,open(sys.argv[2],'w'),indent=1)
PY
  echo "  stored $d"
else
  echo "  REJECTED"
fi
